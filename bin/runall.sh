#!/bin/sh
# run the quick (or given) tier of every claimed property one after the other, evidence included
tier=${1:-quick}; shift
props=${*:-$(python3 -c "import json; print(' '.join(c['property_id'] for c in json.load(open('/verif/MANIFEST.json'))['checks']))")}
cd /verif || exit 2
mkdir -p /var/tmp/runall
rc=0
for p in $props; do
	start=$(date +%s)
	bin/vcheck $p --tier $tier > /var/tmp/runall/$p.$tier.log 2>&1
	r=$?
	echo "$p tier=$tier exit=$r $(( $(date +%s) - start ))s $(tail -1 /var/tmp/runall/$p.$tier.log)"
	[ $r -ne 0 ] && rc=1
done
exit $rc
