#!/bin/sh
# run a check against a seeded change: apply to /repo, run, always undo
#   seedrun.sh <seeded-name> <vcheck args...>
N=$1; shift
git -C /repo apply /verif/seeded/$N/patch.diff || exit 2
trap 'git -C /repo checkout -- . ' EXIT INT TERM
/verif/bin/vcheck "$@" --no-evidence 2>&1 | grep -v "^  obligation=" | cut -c1-230
