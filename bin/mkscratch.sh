#!/bin/sh
# create a scratch git worktree of /repo (HEAD) with the in-tree build state copied over,
# so that `make && make check` work offline there.  usage: mkscratch.sh <dir>
set -e
D=$1
git -C /repo worktree add -q --detach "$D" HEAD
rsync -a --exclude .git /repo/ "$D"/
# the copy must not carry uncommitted edits of /repo's tracked files
git -C "$D" checkout -q -- .
echo "$D ready"
