#!/bin/sh
# confirm a seeded change in its scratch worktree and archive it under /verif/seeded/<name>
#   seedtest.sh <name> <worktree>     (worktree has MUTANT/{patch.diff,demo.c|demo.sh,NOTES.md}, change applied)
# prints: tests with change, demo with change (must fail), demo without (must pass)
set -u
NAME=$1; WT=$2
cd "$WT" || exit 2
git checkout -q -- src 2>/dev/null
git apply MUTANT/patch.diff || { echo "patch does not apply"; exit 2; }
make -j8 >/dev/null 2>&1
T=$(make check -j8 2>&1 | grep -E "^# (PASS|FAIL):" | tr '\n' ' ')
echo "tests with change: $T"
rundemo() {
	if [ -f MUTANT/demo.sh ]; then sh MUTANT/demo.sh >/tmp/demo.$$.out 2>&1; return $?; fi
	CMD=$(sed -n '/gcc /,/\*\//p' MUTANT/demo.c | sed 's/^ \*//; s/\*\/.*//; s/\\$//' | tr '\n' ' ' | sed 's/&&.*//')
	(cd MUTANT && eval "$CMD -o /tmp/demo.$$ " >/tmp/demo.$$.build 2>&1) || { echo "demo build failed: $CMD"; cat /tmp/demo.$$.build | tail -5; return 99; }
	/tmp/demo.$$ >/tmp/demo.$$.out 2>&1
}
rundemo; W=$?
echo "demo with change: exit $W ($(tail -1 /tmp/demo.$$.out | cut -c1-120))"
git apply -R MUTANT/patch.diff; make -j8 >/dev/null 2>&1
rundemo; O=$?
echo "demo without change: exit $O ($(tail -1 /tmp/demo.$$.out | cut -c1-120))"
git apply MUTANT/patch.diff; make -j8 >/dev/null 2>&1
rm -f /tmp/demo.$$*
mkdir -p /verif/seeded/$NAME && cp MUTANT/* /verif/seeded/$NAME/ 
echo "archived /verif/seeded/$NAME"
