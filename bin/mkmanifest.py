#!/usr/bin/env python3
"""Regenerate /verif/MANIFEST.json from the table below (so the per-property texts live in one place)."""
import json, os, sys

ROOT = os.path.dirname(os.path.dirname(os.path.abspath(__file__)))
TECH = "bounded symbolic execution of the real C units (goto-cc + cbmc 6.11), SAT/SMT verdict over all inputs in the stated bounds, counterexamples replayed natively"

# property -> (level text, level note, technique suffix, design ref)
CLAIMED = {
 'C01': ("Per rule shape, every DTSTART/INTERVAL/BY-value/COUNT/UNTIL is a solver variable: the real rrul_fill_* output is sound and complete w.r.t. an RFC 5545 membership predicate for the first K occurrences. Bounded model checking is the right level: the interesting inputs are calendar phases no test file lists.",
         "K=2 occurrences per filler call, BY-lists of stated lengths, next occurrence within B periods; oracle/rrule.h is trusted as the RFC; cache refills are covered by C16.", "per-shape harness + membership oracle with symbolic gap witness", "6 C01"),
 'C02': ("Exception filter executed on symbolic occurrence/exception streams with symbolic common duration (zero included) under arbitrary peek/pop schedules; result compared with 'occurrences minus those whose start is named'.",
         "<= 2-3 events per stream; array-backed stream stand-in; echs_instant_add replaced by a model proven equal on the harness domain; known finding C02-2 (overlap drops unnamed occurrence) excluded by assumption and re-confirmed each run.", "symbolic streams + inductive add-model lemma", "6 C02"),
 'C03': ("next_evmux/echs_evstrm_vmux on symbolic constituents (ties, cross-stream duplicates) and arbitrary peek/pop interleavings: order, completeness, duplicate collapse, end-of-stream, peek purity, no use after free.",
         "<= 3 constituents x <= 2-3 events; array-backed constituents; indirect calls restricted to them; typed static allocator except in the *_realmalloc obligation.", "symbolic k-way merge histories", "6 C03"),
 'C05': ("Token-level round trip: send_rrul/send_task run with the writer replaced by recorders; the recorded keys and integers are read back through the real keyword tables, snarf_fld and make_task and must rebuild the same rule parts / numeric task fields for every admitted value.",
         "BY-lists of 2 values, three BY-parts per query; character-level text round trip, TZID/SCALE/EXDATE serialisation and stream position are outside (position: C16).", "recorder-as-reader over the real serialiser", "6 C05"),
 'C04': ("_inject_task1 -> resched/unwind_till/instant_to_tstamp -> task_cb/run_task -> chld_cb/unsched for one task with symbolic occurrences, a symbolic load time and symbolic non-decreasing wake-up times with optional child exits; per step exactly one run is started iff an occurrence with load <= t < now is outstanding; instant_to_tstamp equals the oracle epoch second for every instant of 2001..2099 (own obligation).",
         "one task, 2 occurrences (any second of two consecutive days), 2-3 loop iterations quick (3 occurrences, 4 iterations thorough); libev/spawn stand-ins with libev 4's reschedule-then-callback order; replace/cancel histories and several tasks are C11/C12's harnesses.", "symbolic wake-up schedules against epoch-second ground truth", "6 C04"),
 'C10': ("_ical_push/_ical_pull/esccpy executed on N fully symbolic bytes (all 256 values), once as one chunk and once split at each position, with the callers' pull protocol (pull until need-more-data, the extra pull round at end of input, the last pull); every completed line handed to the component parser is recorded and must be identical; bounds/pointer checks and a canary on the line stash; unwinding assertions bound the chopping loops.",
         "N <= 5 bytes quick (6 thorough), two or three chunks, line stash reduced to 16 bytes (hook; 3 bytes for the over-long-line safety obligations); the component state machine _ical_proc is observed through hook ECHSE_VERIF_PROC, it is a function of (state, line); known finding C10-1 (escape split) excluded and re-confirmed each run.", "chunked-vs-whole differential on symbolic bytes", "6 C10"),
 'C06': ("Write side of the checkpoint: chkpnt()/chkpnt1() with the real buffered writer (src/fdprnt.h) and the real serialiser (src/evical.c) against a file-system stand-in in which any one of the first 12 (thorough: 30) system calls fails outright or short; the invariant 'the live queue file is the old complete file or a new complete file' is asserted at rename time and the dot-file/unlink/rename protocol after the run, which covers a crash at every system-call boundary (rename atomic). The dirty-user bookkeeping (add_chkpnt/chkpnt: 16-slot list, dump-everybody fallback on overflow) is its own obligation: every user with a change note since the last checkpoint is checkpointed.",
         "queue configuration (0-2 tasks, owners, dirty user) and the length of every formatted field are constants of the obligation (7 configurations; field length 8, thorough also 40) because a symbolic length makes the writer's buffer index a 130-deep conditional chain cbmc cannot simplify; output buffer reduced to 128 bytes (hook); the reload half (a daemon started afterwards schedules exactly the checkpointed tasks) needs the text parser on the produced bytes and is outside; known finding C06-1 (write errors unnoticed) excluded by assumption and re-confirmed each run.", "single symbolic fault over the system-call trace of a checkpoint", "6 C06"),
 'C09': ("The fillers called as refill() calls them with bounds/pointer checks on the real cache buffer (cache 4 via hook): overshoot shapes, the maximal BYHOUR/BYSECOND lists, and empty recurrence sets that must end the stream within the unwinding bound (a failed unwinding assertion is replayed natively under a time limit).",
         "cache 4 instead of 64; termination obligations start near the end of the supported range; sparse-shape memory safety rides on C01's obligations.", "bounds checks + unwinding assertions as termination obligations", "6 C09"),
 'C11': ("_inject_task1/_eject_task1/get_task with the real task table (put_task_slot/get_task_slot) and ownership predicates under symbolic histories of add-or-replace / cancel operations by two peer uids over symbolic 64-bit oids, as root daemon or per-user daemon; after every operation the look-up of every oid, the stored task, its owner and its run-as uid are compared with a reference map kept by the harness; table growth on colliding low bits is its own obligation; cmd_http() (GET /queue, GET /sched) with symbolic peer uid, requested uid and task owners: an ordinary user is shown his own tasks and queue file only.",
         "2 operations x 2 oids and 3 operations x 2 oids quick (3 x 3 and table growth to 256 slots thorough); oids with fixed distinct low 4 bits and symbolic upper 60 bits in the history obligations; command layer entered with the peer uid directly; replies on the client fd, the tuid= parameter path and the rendering of the /queue and /sched bodies are outside.", "symbolic command histories against a reference map", "6 C11"),
 'C12': ("task_cb/chld_cb/run_task with symbolic limits under symbolic schedules of timer expiries and child exits; the harness keeps the ground truth of really running executions.",
         "1-2 tasks, 3-4 events quick (6 thorough), limits <= 3 or unset; libev/spawn stand-ins; child-watcher pool replaced by a separate-objects allocator.", "symbolic event schedules against a ground-truth counter", "6 C12"),
 'C13': ("prep_task() over all 32 output configurations with descriptors tagged by the object they refer to; the sinks reached by fd 1 / fd 2 through the plan are compared with the README table; working directory and stdin likewise. The data pump data_cb() is executed against a kernel stand-in (mail file as a log of appended segments; splice amounts, sendfile partial transfers and the order of the two watchers symbolic): each tee file receives exactly its own stream's bytes, in order.",
         "descriptor plan: no failing system call; pump: 3 callback invocations quick (4 thorough), <= 1000 bytes per splice, HAVE_SPLICE+HAVE_SENDFILE path of this build; real process execution, pipe capacity, exit status/signals, sendmail and the journal need a running child and kernel and are outside.", "tagged-descriptor data-flow model of the real plan + segment-log model of the mail file", "6 C13"),
 'C14': ("The limit L (1 s .. 30 d) is a solver variable at every hop: vtodoify() DURATION line, idiff_strp of PT<n>S, make_task() classification, echsx() argument of alarm() for TIMEOUT and DUE requests.",
         "signal delivery and the kill itself are outside; stand-ins for alarm/time/setuid/sigaction; DTEND->duration is C08's diff.", "per-hop conversion obligations", "6 C14"),
 'C16': ("refill()/next_evrrul() with the cache reduced to 2-4 (hook) so that pops cross refill boundaries: strictly increasing, >= DTSTART, <= UNTIL, <= COUNT, peek purity, and restart consistency against one long direct fill.",
         "2 pops = 2 refills over a cache of 2 in the quick tier (3 pops / cache 4 with 5 pops thorough); UTC Gregorian streams; echs_instant_sort cut for an insertion sort (its correctness is C20); SHIFT/monthly/weekly shapes thorough-tier only; streams followed for thousands of occurrences are outside any solver's reach.", "stream-vs-direct-fill equivalence", "6 C16"),
 'C07': ("The zone itself is symbolic (transitions, type map, offsets): cached and uncached offset lookup equal a linear-scan oracle and terminate; local<->UTC round trips hold for unambiguous local times.",
         "<= 3-5 transitions per zone, offsets within +-18 h, consecutive transitions >= 48 h apart for the round trip (checked against the installed zoneinfo by setup); zoneinfo file parsing and the refill() correction loop are outside.", "symbolic time zone", "6 C07"),
 'C08': ("echs_instant_diff/add/fixup, ordering predicates and both library epoch conversions compared with an independent calendar oracle for every instant of 1901-2099; the add/diff round trip is decomposed into lemmas each decided by a solver.",
         "add: sub-day and whole-day durations up to 400 days in the quick tier (mixed durations in the thorough tier); daemon-side instant_to_tstamp is checked under C04; ORC-cal validated natively against timegm.", "lemma decomposition over the code's own day count; cvc5 bit-vectors-as-integers for the multiply/divide kernels", "6 C08"),
 'C15': ("For each of the 10 Hijri variants the Gregorian day is one symbolic date over all of 1901-2099: round trip, successor-maps-to-successor with month length, weekday agreement, rejection outside table coverage.",
         "none inside 1901-2099 beyond the unwinding of the two table scans to their true length.", "whole finite domain as one symbolic variable per scale", "6 C15"),
 'C17': ("Easter for every year equals the anonymous Gregorian computus; BYEASTER=N and SHIFT=N / NB / NB+ / -NB- / -0B on a symbolic candidate date equal a day-number / business-day-walk oracle and land in the right year bucket.",
         "one candidate per query; |N| <= 60 days / 10 business days in the quick tier; business-day semantics as pinned by the repo's own tests (see DESIGN).", "oracle comparison on shift()/fill_yly_eastr()", "6 C17"),
 'C18': ("Printers feed parsers symbolically: dt_strp(dt_strf(x))==x for every valid instant (all three kinds, both print forms), idiff and range likewise, every [+|-]P..W..D..T..H..M..S spelling reads as its value.",
         "durations whole seconds up to 4000 days; spelling component ranges as stated.", "print/parse round trip with symbolic values", "6 C18"),
 'C19': ("Insertion sequences of K symbolic values into each of the six containers: membership exact, iteration (with the callers' protocol) yields each value once and terminates.",
         "K <= 3 (4 and the 13/15-value list->bitset switch in the thorough tier).", "symbolic insertion sequences", "6 C19"),
 'C20': ("WikiSort instantiations on arrays of symbolic instants/events of each exact length n: sorted, permutation, stable (events tagged by input index); comparator is a strict weak order over all 2^192 triples.",
         "n <= 5 quick / <= 8 thorough, plus n = 33 attempted; lengths up to 4096 and the block-merge path are outside any solver's reach and outside the claim.", "symbolic arrays of fixed length", "6 C20"),
}

NA_REASON = "not claimed (see DESIGN.md section 7)"


def main():
    props = [json.loads(l) for l in open(os.path.join(ROOT, 'properties.jsonl'))]
    repo_log = os.popen("git -C /repo log --format=%h --grep='^hook:' 2>/dev/null").read().split()
    checks, na = [], []
    for p in props:
        pid = p['id']
        if pid in CLAIMED and os.path.exists(os.path.join(ROOT, 'harness', pid, 'plan.py')):
            text, note, tech, ref = CLAIMED[pid]
            checks.append(dict(
                property_id=pid,
                quick_cmd='bin/vcheck %s --tier quick' % pid,
                thorough_cmd='bin/vcheck %s --tier thorough' % pid,
                evidence_file='/verif/evidence/%s.json' % pid,
                replay_cmd_template='bin/vcheck --replay {path}',
                engine='cbmc',
                level_claimed=dict(category='model_checking', text=text, design_ref='DESIGN.md section ' + ref),
                level_note=note,
                technique=TECH + '; ' + tech,
            ))
        else:
            reason = NA.get(pid, NA_REASON)
            na.append(dict(property_id=pid, reason=reason))
    man = dict(
        version=1,
        setup_cmd='bin/setup.sh',
        hooks=dict(guard='ECHSE_VERIF', enable='harnesses are compiled with -DECHSE_VERIF (goto-cc and the native replay alike); /repo itself is never rebuilt with it',
                   baseline_off_cmd='make -C /repo check', source_commits=repo_log, add_only=True),
        engines=[dict(name='cbmc', path='/verif/bin/vcheck', serves_properties=[c['property_id'] for c in checks],
                      kind_free_text='driver around goto-cc/goto-instrument/cbmc 6.11 (minisat, cadical, kissat, cvc5 bv-as-int) with native gcc+ASan/UBSan replay')],
        checks=checks,
        notes='All checks rebuild their goto binaries from /repo/src on every run. known_findings.json lists genuine defects (fixed by fix: commits, or recorded).',
        not_applicable=na,
    )
    with open(os.path.join(ROOT, 'MANIFEST.json'), 'w') as f:
        json.dump(man, f, indent=1)
        f.write('\n')
    print('MANIFEST: %d checks, %d not_applicable' % (len(checks), len(na)))


NA = {}

if __name__ == '__main__':
    main()
