#!/bin/sh
# MANIFEST.setup_cmd: offline set-up of the verification machinery.
# Nothing is downloaded; checks that the solver tool chain is present, regenerates
# the generated sources of /repo the harnesses include, and validates the oracles
# and the stated environment assumptions natively.
set -e
cd "$(dirname "$0")/.."
REPO=${VERIF_REPO:-/repo}
for t in cbmc goto-cc goto-instrument kissat cvc5 gcc python3 make; do
	command -v $t >/dev/null || { echo "setup: missing tool $t"; exit 1; }
done
chmod +x bin/vcheck bin/shim/cvc5 2>/dev/null || true
# generated sources (gperf tables, yuck parsers) must match the working tree
make -s -C "$REPO/src" evical-gp.c evrrul-gp.c evmrul-gp.c evmeth-gp.c evcomp-gp.c echsd.yucc echsx.yucc >/dev/null 2>&1 || \
	echo "setup: note: could not refresh generated sources, using the ones on disk"
T=$(mktemp -d /var/tmp/vsetup.XXXXXX)
trap 'rm -rf "$T"' EXIT
gcc -O1 -I oracle oracle/validate_cal.c -o "$T/vc" && "$T/vc"
gcc -O1 oracle/validate_tz.c -o "$T/vt" && "$T/vt"
gcc -O1 oracle/validate_berlin.c -o "$T/vb" && "$T/vb"
mkdir -p evidence counterexamples
echo "setup: ok"
