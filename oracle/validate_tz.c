/* native check of the C07 zone-shape assumptions against the installed
 * zoneinfo tree: consecutive transitions >= 48 h apart, |offset| <= 18 h.
 * Reads the 32-bit (v1) block of every TZif file, the one tzraw.c uses. */
#define _GNU_SOURCE
#include <stdio.h>
#include <stdlib.h>
#include <stdint.h>
#include <string.h>
#include <ftw.h>

static long nfiles, nbad;
static long long mingap = 1LL << 40;
static int maxoff;
static char mingap_zone[256];

static uint32_t be32(const unsigned char *p) { return (uint32_t)p[0] << 24 | p[1] << 16 | p[2] << 8 | p[3]; }

static int visit(const char *path, const struct stat *sb, int flag, struct FTW *f)
{
	(void)sb; (void)f;
	if (flag != FTW_F) return 0;
	FILE *fp = fopen(path, "rb");
	unsigned char hdr[44];
	if (!fp) return 0;
	if (fread(hdr, 1, 44, fp) != 44 || memcmp(hdr, "TZif", 4)) { fclose(fp); return 0; }
	uint32_t timecnt = be32(hdr + 32), typecnt = be32(hdr + 36);
	unsigned char *buf = malloc(timecnt * 5 + typecnt * 6 + 8);
	if (fread(buf, 1, timecnt * 5 + typecnt * 6, fp) != timecnt * 5 + typecnt * 6) { free(buf); fclose(fp); return 0; }
	nfiles++;
	for (uint32_t i = 1; i < timecnt; i++) {
		long long gap = (long long)(int32_t)be32(buf + 4 * i) - (int32_t)be32(buf + 4 * (i - 1));
		/* the first entry of many files is the -2^31 "big bang" placeholder */
		if ((int32_t)be32(buf + 4 * (i - 1)) == INT32_MIN) continue;
		if (gap < mingap) { mingap = gap; snprintf(mingap_zone, sizeof(mingap_zone), "%s", path); }
	}
	for (uint32_t i = 0; i < typecnt; i++) {
		int off = (int32_t)be32(buf + timecnt * 5 + 6 * i);
		if (abs(off) > maxoff) maxoff = abs(off);
	}
	free(buf);
	fclose(fp);
	return 0;
}

int main(int argc, char *argv[])
{
	const char *dir = argc > 1 ? argv[1] : "/usr/share/zoneinfo";
	nftw(dir, visit, 16, FTW_PHYS);
	printf("validate_tz: %ld TZif files under %s, min gap between consecutive transitions %lld s (%s), max |offset| %d s\n",
	       nfiles, dir, mingap, mingap_zone, maxoff);
	if (nfiles == 0) { printf("validate_tz: no zoneinfo installed, assumption unchecked\n"); return 0; }
	if (mingap < 172800) { printf("validate_tz: ASSUMPTION VIOLATED: gap < 48 h\n"); nbad++; }
	if (maxoff > 18 * 3600) { printf("validate_tz: ASSUMPTION VIOLATED: |offset| > 18 h\n"); nbad++; }
	return nbad != 0;
}
