/* ORC-cal -- independent proleptic-Gregorian reference (no code shared with echse).
 * Day numbers count from 1901-01-01 = 0.  Written with the textbook leap rule
 * (incl. the 100/400 exception) and a per-month table. */
#if !defined INCLUDED_orc_cal_h_
#define INCLUDED_orc_cal_h_
#include <stdbool.h>

/* textbook rule */
static inline bool orc_leap_p_full(int y)
{
	return (y % 4 == 0 && y % 100 != 0) || y % 400 == 0;
}

/* number of leap years in [1, y), textbook */
static inline int orc_leaps_before_full(int y)
{
	int p = y - 1;
	return p / 4 - p / 100 + p / 400;
}

/* With -DORC_FAST the two functions above are replaced by their division-free
 * specialisation to 1901..2100 (2000 is a leap year, 1900 and 2100 are outside):
 * obligation C08/LO_oracle_fast proves both forms equal for every year of the
 * range, so this is a solver-cost optimisation, not a second oracle. */
static inline bool orc_leap_p(int y)
{
#if defined ORC_FAST
	return (y & 3) == 0;
#else
	return orc_leap_p_full(y);
#endif
}

static inline int orc_mdays(int y, int m)
{
	switch (m) {
	case 1: case 3: case 5: case 7: case 8: case 10: case 12:
		return 31;
	case 4: case 6: case 9: case 11:
		return 30;
	case 2:
		return orc_leap_p(y) ? 29 : 28;
	default:
		return 0;
	}
}

/* number of leap years in [1, y) */
static inline int orc_leaps_before(int y)
{
#if defined ORC_FAST
	/* 460 leap years precede 1901; from then on every 4th year */
	return 460 + ((y - 1901) >> 2);
#else
	return orc_leaps_before_full(y);
#endif
}

/* days before the 1st of month m in year y */
static inline int orc_yday0(int y, int m)
{
	int s = 0;
	switch (m) {
	case 12: s += 30;
	case 11: s += 31;
	case 10: s += 30;
	case 9: s += 31;
	case 8: s += 31;
	case 7: s += 30;
	case 6: s += 31;
	case 5: s += 30;
	case 4: s += 31;
	case 3: s += orc_leap_p(y) ? 29 : 28;
	case 2: s += 31;
	default: break;
	}
	return s;
}

/* day number of y-m-d, 1901-01-01 = 0; d may exceed the month length (raw) */
static inline long long orc_daynum(int y, int m, int d)
{
	long long yd = (long long)(y - 1901) * 365 + (orc_leaps_before(y) - orc_leaps_before(1901));
	return yd + orc_yday0(y, m) + (d - 1);
}

/* weekday, 0 = Monday .. 6 = Sunday; 1901-01-01 was a Tuesday */
static inline int orc_wday(int y, int m, int d)
{
	return (int)((orc_daynum(y, m, d) + 1) % 7);
}

static inline bool orc_valid_date_p(int y, int m, int d)
{
	return y >= 1901 && y <= 2099 && m >= 1 && m <= 12 && d >= 1 && d <= orc_mdays(y, m);
}

#define ORC_UNIX_DAY0	(-25202LL)	/* 1901-01-01 is day -25202 of the unix epoch */
/* seconds since 1970-01-01T00:00:00Z */
static inline long long orc_epoch(int y, int m, int d, int H, int M, int S)
{
	return (orc_daynum(y, m, d) + ORC_UNIX_DAY0) * 86400LL + H * 3600LL + M * 60LL + S;
}
#endif
