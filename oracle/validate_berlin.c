/* validates the zone stand-in of harness/C14 (SIDE_E): Europe/Berlin around 2015-03-29 is
 * UTC+1 for wall-clock times before 02:00 on the 29th and UTC+2 from 03:00 on, against the
 * installed zoneinfo through libc */
#define _DEFAULT_SOURCE
#include <stdio.h>
#include <stdlib.h>
#include <time.h>
static int berlin_offh(long long d, long long H) { return d < 29 || (d == 29 && H < 2) ? 1 : 2; }
int main(void)
{
	int bad = 0, n = 0;
	setenv("TZ", "Europe/Berlin", 1);
	tzset();
	for (int d = 28; d <= 30; d++) {
		for (int H = 0; H < 24; H++) {
			if (d == 29 && H == 2) continue;	/* the gap */
			for (int M = 0; M < 60; M += 29) {
				struct tm tm = {.tm_year = 115, .tm_mon = 2, .tm_mday = d, .tm_hour = H, .tm_min = M, .tm_isdst = -1};
				time_t t = mktime(&tm);
				struct tm g = {.tm_year = 115, .tm_mon = 2, .tm_mday = d, .tm_hour = H, .tm_min = M};
				time_t u = timegm(&g);
				n++;
				if ((long long)(u - t) != 3600LL * berlin_offh(d, H)) {
					printf("validate_berlin: 2015-03-%02d %02d:%02d offset %lld s, stand-in says %d h\n", d, H, M, (long long)(u - t), berlin_offh(d, H));
					bad++;
				}
			}
		}
	}
	printf("validate_berlin: %d wall-clock times checked against the installed zoneinfo, %d disagreements\n", n, bad);
	return bad != 0;
}
