/* ORC-easter: the anonymous Gregorian computus (Meeus/Jones/Butcher). */
#if !defined INCLUDED_orc_easter_h_
#define INCLUDED_orc_easter_h_
static inline void orc_easter(int y, int *m, int *d)
{
	int a = y % 19, b = y / 100, c = y % 100;
	int dd = b / 4, e = b % 4, f = (b + 8) / 25, g = (b - f + 1) / 3;
	int h = (19 * a + b - dd - g + 15) % 30;
	int i = c / 4, k = c % 4;
	int l = (32 + 2 * e + 2 * i - h - k) % 7;
	int mm = (a + 11 * h + 22 * l) / 451;
	*m = (h + l - 7 * mm + 114) / 31;
	*d = (h + l - 7 * mm + 114) % 31 + 1;
}
#endif
