/* native cross-check of ORC-cal / ORC-easter against independent sources
 * (libc timegm/gmtime, published Easter dates); run by bin/setup.sh */
#define _GNU_SOURCE
#include <stdio.h>
#include <time.h>
#include <string.h>
#include "cal.h"
#include "easter.h"

int main(void)
{
	int bad = 0;
	long n = 0;
	for (int y = 1901; y <= 2100; y++) {
		int leaps_fast = 460 + ((y - 1901) >> 2);
		if (orc_leaps_before_full(y) != leaps_fast) bad++, printf("leap count %d\n", y);
		if (y <= 2099 && orc_leap_p_full(y) != ((y & 3) == 0)) bad++, printf("leap rule %d\n", y);
	}
	for (int y = 1901; y <= 2099; y++) for (int m = 1; m <= 12; m++) for (int d = 1; d <= orc_mdays(y, m); d++) {
		struct tm tm = {.tm_year = y - 1900, .tm_mon = m - 1, .tm_mday = d};
		time_t t = timegm(&tm);
		struct tm *g = gmtime(&t);
		if ((long long)t != orc_epoch(y, m, d, 0, 0, 0)) bad++, printf("epoch %d-%d-%d\n", y, m, d);
		/* tm_wday: 0 = Sunday; orc_wday: 0 = Monday */
		if ((g->tm_wday + 6) % 7 != orc_wday(y, m, d)) bad++, printf("wday %d-%d-%d\n", y, m, d);
		if (g->tm_yday + 1 != orc_yday0(y, m) + d) bad++, printf("yday %d-%d-%d\n", y, m, d);
		n++;
	}
	static const int easter[][3] = {
		{1901, 4, 7}, {1943, 4, 25}, {1954, 4, 18}, {1961, 4, 2}, {1981, 4, 19}, {2000, 4, 23}, {2008, 3, 23}, {2011, 4, 24},
		{2016, 3, 27}, {2019, 4, 21}, {2024, 3, 31}, {2025, 4, 20}, {2038, 4, 25}, {2047, 4, 14}, {2076, 4, 19}, {2099, 4, 12},
	};
	for (unsigned i = 0; i < sizeof(easter) / sizeof(*easter); i++) {
		int m, d;
		orc_easter(easter[i][0], &m, &d);
		if (m != easter[i][1] || d != easter[i][2]) bad++, printf("easter %d: %d-%d\n", easter[i][0], m, d);
	}
	printf("validate_cal: %ld days checked against timegm/gmtime, %d disagreements\n", n, bad);
	return bad != 0;
}
