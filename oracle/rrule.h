/* ORC-rrule -- RFC 5545 section 3.3.10 as a MEMBERSHIP PREDICATE.
 *
 * orc_member(R, D, x) says whether instant x belongs to the recurrence set of
 * rule R anchored at DTSTART D (BYSETPOS aside, see orc_setpos_rank).  It is
 * written from the RFC text (period arithmetic relative to DTSTART, "every BYxxx
 * part present must contain x's component", absent components come from DTSTART,
 * expand-vs-limit table, weeks start on Monday) and shares no code with echse.
 * It never enumerates a set: completeness is checked with a fresh symbolic
 * instant z between two consecutive outputs, for which the solver must show
 * !orc_member(z).
 *
 * Needs oracle/cal.h.  Weekdays: 1 = Monday .. 7 = Sunday (as echse's echs_wday_t). */
#if !defined INCLUDED_orc_rrule_h_
#define INCLUDED_orc_rrule_h_
#include <stdbool.h>
#include "cal.h"

#define ORC_MAXV	4

enum { ORC_YEARLY = 1, ORC_MONTHLY, ORC_WEEKLY, ORC_DAILY, ORC_HOURLY, ORC_MINUTELY, ORC_SECONDLY };

struct orc_rule_s {
	int freq;
	int inter;
	int nmon, mon[ORC_MAXV];
	int ndom, dom[ORC_MAXV];	/* +-1..31 */
	int ndoy, doy[ORC_MAXV];	/* +-1..366 */
	int nwk, wk[ORC_MAXV];		/* +-1..53, YEARLY only */
	int ndow, dow_wd[ORC_MAXV], dow_n[ORC_MAXV];	/* n = 0: every such weekday */
	int nH, H[ORC_MAXV];
	int nM, M[ORC_MAXV];
	int nS, S[ORC_MAXV];
};

struct orc_dt_s {
	int y, m, d, H, M, S;
	bool allday;
};

static inline bool orc_in(int n, const int *v, int x)
{
	bool r = false;
	for (int i = 0; i < ORC_MAXV; i++) {
		r |= i < n && v[i] == x;
	}
	return r;
}

static inline int orc_ylen(int y)
{
	return orc_leap_p(y) ? 366 : 365;
}

static inline int orc_yday(int y, int m, int d)
{
	return orc_yday0(y, m) + d;
}

/* 1 = Monday .. 7 = Sunday */
static inline int orc_wd(int y, int m, int d)
{
	return orc_wday(y, m, d) + 1;
}

/* ISO 8601 week number of y-m-d within year y; 0 means "belongs to the last
 * week of y-1", 53 may mean "belongs to week 1 of y+1" (caller decides) */
static inline int orc_isoweek_raw(int y, int m, int d)
{
	return (orc_yday(y, m, d) - orc_wd(y, m, d) + 10) / 7;
}

static inline int orc_isoweeks_in(int y)
{
	/* a year has 53 weeks iff Jan 1 is a Thursday, or a Wednesday in a leap year */
	int j1 = orc_wd(y, 1, 1);
	return (j1 == 4 || (j1 == 3 && orc_leap_p(y))) ? 53 : 52;
}

static inline bool orc_lt(struct orc_dt_s a, struct orc_dt_s b)
{
	if (a.y != b.y) return a.y < b.y;
	if (a.m != b.m) return a.m < b.m;
	if (a.d != b.d) return a.d < b.d;
	if (a.allday || b.allday) return a.allday && !b.allday;
	if (a.H != b.H) return a.H < b.H;
	if (a.M != b.M) return a.M < b.M;
	return a.S < b.S;
}

static inline bool orc_eq(struct orc_dt_s a, struct orc_dt_s b)
{
	return a.y == b.y && a.m == b.m && a.d == b.d && a.allday == b.allday &&
		(a.allday || (a.H == b.H && a.M == b.M && a.S == b.S));
}

static inline bool orc_valid_dt(struct orc_dt_s x)
{
	return x.y >= 1901 && x.y <= 2099 && x.m >= 1 && x.m <= 12 && x.d >= 1 && x.d <= orc_mdays(x.y, x.m) &&
		(x.allday || (x.H >= 0 && x.H < 24 && x.M >= 0 && x.M < 60 && x.S >= 0 && x.S < 60));
}

/* is x in the recurrence set of R anchored at D (ignoring COUNT/UNTIL/BYSETPOS) */
static inline bool orc_member(const struct orc_rule_s *R, struct orc_dt_s D, struct orc_dt_s x)
{
	const int f = R->freq;

	if (!orc_valid_dt(x) || x.allday != D.allday || orc_lt(x, D)) {
		return false;
	}
	/* --- the period x lies in is a whole multiple of INTERVAL away from DTSTART's */
	int dist;
	const int dx = (int)orc_daynum(x.y, x.m, x.d), dD = (int)orc_daynum(D.y, D.m, D.d);
	switch (f) {
	case ORC_YEARLY:
		dist = x.y - D.y;
		break;
	case ORC_MONTHLY:
		dist = (x.y - D.y) * 12 + (x.m - D.m);
		break;
	case ORC_WEEKLY:
		/* weeks start on Monday; 1901-01-01 (day 0) was a Tuesday */
		dist = (dx + 1) / 7 - (dD + 1) / 7;
		break;
	case ORC_DAILY:
		dist = dx - dD;
		break;
	case ORC_HOURLY:
		dist = (dx - dD) * 24 + (x.H - D.H);
		break;
	case ORC_MINUTELY:
		dist = ((dx - dD) * 24 + (x.H - D.H)) * 60 + (x.M - D.M);
		break;
	case ORC_SECONDLY:
		dist = (((dx - dD) * 24 + (x.H - D.H)) * 60 + (x.M - D.M)) * 60 + (x.S - D.S);
		break;
	default:
		return false;
	}
	if (dist < 0 || dist % R->inter != 0) {
		return false;
	}
	/* --- every BYxxx part that is present contains x's component */
	if (R->nmon && !orc_in(R->nmon, R->mon, x.m)) {
		return false;
	}
	if (R->ndom && !orc_in(R->ndom, R->dom, x.d) && !orc_in(R->ndom, R->dom, x.d - orc_mdays(x.y, x.m) - 1)) {
		return false;
	}
	if (R->ndoy) {
		const int yd = orc_yday(x.y, x.m, x.d);
		if (!orc_in(R->ndoy, R->doy, yd) && !orc_in(R->ndoy, R->doy, yd - orc_ylen(x.y) - 1)) {
			return false;
		}
	}
	if (R->nwk) {
		/* YEARLY only: x lies in ISO week w of its own year */
		const int w = orc_isoweek_raw(x.y, x.m, x.d), nw = orc_isoweeks_in(x.y);
		if (w < 1 || w > nw) {
			return false;	/* belongs to a week of a neighbouring year */
		}
		if (!orc_in(R->nwk, R->wk, w) && !orc_in(R->nwk, R->wk, w - nw - 1)) {
			return false;
		}
	}
	if (R->ndow) {
		const int wd = orc_wd(x.y, x.m, x.d);
		bool hit = false;
		/* ordinals count within the month for MONTHLY and for YEARLY with
		 * BYMONTH, within the year for YEARLY without */
		const bool inmonth = f == ORC_MONTHLY || (f == ORC_YEARLY && R->nmon);
		for (int i = 0; i < ORC_MAXV; i++) {
			if (i >= R->ndow || R->dow_wd[i] != wd) {
				continue;
			}
			const int n = R->dow_n[i];
			if (n == 0) {
				hit = true;
			} else if (inmonth) {
				hit |= n > 0 ? (x.d - 1) / 7 + 1 == n : (orc_mdays(x.y, x.m) - x.d) / 7 + 1 == -n;
			} else {
				const int yd = orc_yday(x.y, x.m, x.d);
				hit |= n > 0 ? (yd - 1) / 7 + 1 == n : (orc_ylen(x.y) - yd) / 7 + 1 == -n;
			}
		}
		if (!hit) {
			return false;
		}
	}
	/* --- date components no BYxxx part speaks about come from DTSTART */
	const bool daypart = R->ndom || R->ndoy || R->nwk || R->ndow;
	switch (f) {
	case ORC_YEARLY:
		if (!daypart) {
			if (x.d != D.d || (!R->nmon && x.m != D.m)) {
				return false;
			}
		}
		break;
	case ORC_MONTHLY:
		if (!daypart && x.d != D.d) {
			return false;
		}
		break;
	case ORC_WEEKLY:
		if (!R->ndow && orc_wd(x.y, x.m, x.d) != orc_wd(D.y, D.m, D.d)) {
			return false;
		}
		break;
	default:
		break;
	}
	/* --- time of day */
	if (!x.allday) {
		if (R->nH ? !orc_in(R->nH, R->H, x.H) : (f < ORC_HOURLY && x.H != D.H)) {
			return false;
		}
		if (R->nM ? !orc_in(R->nM, R->M, x.M) : (f < ORC_MINUTELY && x.M != D.M)) {
			return false;
		}
		if (R->nS ? !orc_in(R->nS, R->S, x.S) : (f < ORC_SECONDLY && x.S != D.S)) {
			return false;
		}
	}
	return true;
}
#endif
