"""C17 -- BYEASTER and SHIFT extensions mean what the README says."""
NOTE = ("easter_get_yday, fill_yly_eastr and shift() of src/evrrul.c executed symbolically against ORC-easter (anonymous "
        "Gregorian computus), ORC-cal day arithmetic and a day-by-day business-day walk. Business-day semantics follow "
        "the README and the repo's own passing tests (unroll_09/10/13, sample_17c): a weekend date first moves to the "
        "adjacent business day in the direction of the shift and that move counts as the first business day, unless the "
        "B+/B- form or a zero amount is used.")
ASSUMPTIONS = ["year 1901..2099 (1902..2098 for shifts so the neighbouring year is in range)",
               "one candidate date per query; several candidates are independent in shift() (loop over candidates)"]
U = ['src/bitint.c', 'src/scale.c', 'src/instant.c']
# candidate sets hold <= 2 values here, i.e. stay in list form: the bitset-form loops get bound 1 and the
# unwinding assertions prove them unreachable
UW = {'bi383_next.*': 1, 'ass_bi383.*': 1, 'ass_int383.*': 3, 'collect.*': 4, 'memcpy.*': 73, 'memmove.*': 4, 'memset.*': 25, 'fill_yly_eastr.*': 3, 'shift.*': 5, 'harness.*': 12}
def ob(name, defs, **kw):
    o = dict(name=name, src='h_ext.c', defs=defs + ['ORC_FAST'], units=U, incl=['src/evrrul.c'], replay_units='all', unwind=3, unwindset=dict(UW),
             solver='kissat', slice_formula=True, timeout=600, mem_gb=6, checks=['--bounds-check', '--div-by-zero-check', '--undefined-shift-check'],
             allow_nobody=[], stubs=['word-wise memcpy/memmove/memset (harness/common/libc_models.h)'], sym='year, candidate month/day, shift amount and flags')
    o.update(kw)
    return o
OBLIGATIONS = [
    ob('easter_all_years', ['EASTER'], enc=['easter_get_yday'], bounds='every year 1901..2099', sym='the year'),
    ob('byeaster_pm366', ['BYEASTER', 'NMAX=366'], enc=['fill_yly_eastr', 'easter_get_yday', 'yd_to_md', 'md_match_p', 'ass_bi383', 'bi383_next'],
       bounds='every year, N in -366..366', sym='year and N'),
    ob('shift_days_pm60', ['SHIFTD', 'NMAX=60'], enc=['shift', 'unpack_cand', '__get_ndom', 'ass_bi383', 'bi383_next'], bounds='every date 1902..2098, N in -60..60 (N != 0)'),
    ob('shift_days_far_300_366', ['SHIFTD', 'NMAX=366', 'NMIN=300'], enc=['shift'], bounds='every date 1902..2098, |N| in 300..366 (the walk crosses up to 13 month ends, incl. the neighbouring year\'s February)',
       unwindset=dict(UW, **{'shift.*': 15}), timeout=3000, mem_gb=8, tiers=('thorough',)),
    ob('shift_days_pm366', ['SHIFTD', 'NMAX=366'], enc=['shift'], bounds='every date 1902..2098, N in -366..366', tiers=('thorough',), timeout=2400, mem_gb=12,
       unwindset=dict(UW, **{'shift.*': 15})),
    ob('shift_bdays_10', ['SHIFTB', 'BMAX=10'], enc=['shift', 'ymd_get_wday', 'echs_shift_bvalue', 'echs_shift_neg_p', 'echs_shift_inv_p'],
       bounds='every date 1902..2098, 0..10 business days, both directions, plain and B+/B- forms, incl. 0B and -0B', tiers=('thorough',), timeout=3000),
    ob('shift_bdays_3', ['SHIFTB', 'BMAX=3'], enc=['shift', 'ymd_get_wday', 'echs_shift_bvalue', 'echs_shift_neg_p', 'echs_shift_inv_p'],
       bounds='every date 1902..2098, 0..3 business days, both directions, plain and B+/B- forms, incl. 0B and -0B'),
    ob('shift_bdays_30', ['SHIFTB', 'BMAX=30'], enc=['shift'], bounds='every date, 0..30 business days', tiers=('thorough',), timeout=2400, mem_gb=12,
       unwindset=dict(UW, **{'harness.*': 32})),
]
