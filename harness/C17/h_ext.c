/* C17: BYEASTER and SHIFT mean what the README says.
 * Real code: src/evrrul.c (included textually): easter_get_yday,
 * fill_yly_eastr, shift(); src/shift.h accessors; src/bitint.c.
 *  -DEASTER   Easter Sunday of every year == anonymous Gregorian computus
 *  -DBYEASTER BYEASTER=N candidate == Easter + N days
 *  -DSHIFTD   SHIFT=N   (calendar days)
 *  -DSHIFTB   SHIFT=NB / NB+ / -NB- / -0B (business days) */
#define WORD_MEMOPS
#include "libc_models.h"
#include "evrrul.c"
#include "cal.h"
#include "easter.h"

#define INPUTS X(y) X(m) X(d) X(n) X(b) X(neg) X(inv)
#include "sym.h"

#if !defined NMAX
# define NMAX 366
#endif
#if !defined BMAX
# define BMAX 10
#endif

/* day number -> (y,m,d), years y0-1..y0+1 */
static void orc_from_daynum(long long dn, int y0, int *y, int *m, int *d)
{
	int yy = y0 - 1;
	if (dn >= orc_daynum(y0 + 1, 1, 1)) yy = y0 + 1;
	else if (dn >= orc_daynum(y0, 1, 1)) yy = y0;
	int mm = 1;
	for (int k = 2; k <= 12; k++) {
		if (dn >= orc_daynum(yy, k, 1)) mm = k;
	}
	*y = yy, *m = mm, *d = (int)(dn - orc_daynum(yy, mm, 1)) + 1;
}

/* collect the candidates of one bucket, at most 2 */
static unsigned int collect(const bitint383_t *c, int out[2])
{
	unsigned int n = 0;
	int x;
	for (bitint_iter_t ci = 0UL; (x = bi383_next(&ci, c), ci);) {
		if (n < 2) out[n] = x;
		n++;
		if (n > 2) break;
	}
	return n;
}

void harness(void)
{
	sym_load();
	ASSUME(in.y >= 1901 && in.y <= 2099);
	const int y = (int)in.y;
#if defined EASTER
	int em, ed;
	orc_easter(y, &em, &ed);
	const unsigned int yd = easter_get_yday((unsigned int)y);
	CHECK(yd == (unsigned int)(orc_yday0(y, em) + ed), "Easter Sunday equals the anonymous Gregorian computus");
	WITNESS_POINT();
#elif defined BYEASTER
	ASSUME(in.n >= -NMAX && in.n <= NMAX);
	const int n = (int)in.n;
	int em, ed;
	orc_easter(y, &em, &ed);
	const long long want = orc_daynum(y, em, ed) + n;
	const bool inyear = want >= orc_daynum(y, 1, 1) && want < orc_daynum(y + 1, 1, 1);
	bitint383_t set = {{0U}, {0}};
	bitint383_t cand = {{0U}, {0}};
	ass_bi383(&set, n);
	fill_yly_eastr(&cand, (unsigned int)y, &set, (bituint31_t)0U, (bitint31_t){0U, 0}, 0U);
	int got[2];
	const unsigned int ng = collect(&cand, got);
	if (inyear) {
		CHECK(ng == 1U, "BYEASTER=N yields exactly one day when Easter+N lies in the year");
		if (ng == 1U) {
			const struct md_s md = unpack_cand(got[0]);
			CHECK(orc_valid_date_p(y, (int)md.m, (int)md.d), "BYEASTER=N yields a valid date");
			CHECK(orc_daynum(y, (int)md.m, (int)md.d) == want, "BYEASTER=N is the day N days after/before Easter Sunday");
		}
	} else {
		CHECK(ng == 0U, "BYEASTER=N yields nothing in year Y when Easter+N lies in another year");
	}
	WITNESS_POINT();
#elif defined SHIFTD || defined SHIFTB
	ASSUME(in.m >= 1 && in.m <= 12 && in.d >= 1 && in.d <= 31);
	ASSUME(orc_valid_date_p(y, (int)in.m, (int)in.d));
	ASSUME(y >= 1902 && y <= 2098);
	const int m = (int)in.m, d = (int)in.d;
	bitint383_t cand[3U] = {{{0U}, {0}}, {{0U}, {0}}, {{0U}, {0}}};
	ass_bi383(&cand[0U], pack_cand(m, d));
	echs_shift_t sh;
	long long want = orc_daynum(y, m, d);
# if defined SHIFTD
	ASSUME(in.n >= -NMAX && in.n <= NMAX && in.n != 0);
#  if defined NMIN
	ASSUME(in.n <= -NMIN || in.n >= NMIN);
#  endif
	sh = (echs_shift_t)((int)in.n * 65536);
	want += in.n;
# else
	/* business days: value B >= 0, direction flag NEG, inverted-semantics flag INV
	 * packed exactly as snarf_shift() does: (b << 2) ^ sem, with
	 * sem bit0 = direction is backwards, bit1 = weekend move does not count */
	ASSUME(in.b >= 0 && in.b <= BMAX && (in.neg == 0 || in.neg == 1) && (in.inv == 0 || in.inv == 1));
	ASSUME(in.b != 0 || in.inv == 1);	/* snarf_shift sets the flag for 0B */
	sh = (echs_shift_t)(((int)in.b << 2) ^ ((int)in.inv << 1) ^ (int)in.neg);
	ASSUME(sh != 0);
	{
		int wd = orc_wday(y, m, d);	/* 0 = Mon .. 6 = Sun */
		int left = (int)in.b;
		const int dir = in.neg ? -1 : 1;
		if (wd >= 5) {
			/* weekend: go to the adjacent business day in the direction of the
			 * shift; that move is the first business day unless inverted (B+/B-)
			 * or the amount is zero */
			if (dir > 0) {
				want += 7 - wd, wd = 0;
			} else {
				want -= wd - 4, wd = 4;
			}
			if (left > 0 && !in.inv) left--;
		}
		for (int k = 0; k < BMAX; k++) {
			if (k < left) {
				want += dir, wd += dir;
				if (wd > 4) want += 2, wd = 0;
				if (wd < 0) want -= 2, wd = 4;
			}
		}
	}
# endif
	shift(cand, (unsigned int)y, sh);
	int got[3][2];
	unsigned int ng[3];
	for (unsigned int k = 0; k < 3U; k++) ng[k] = collect(&cand[k], got[k]);
	/* the result is filed under the same / previous / next year */
	const unsigned int bucket = want < orc_daynum(y, 1, 1) ? 1U : want >= orc_daynum(y + 1, 1, 1) ? 2U : 0U;
	const int ry = bucket == 0U ? y : bucket == 1U ? y - 1 : y + 1;
	ASSUME(want >= orc_daynum(y - 1, 1, 1) && want < orc_daynum(y + 2, 1, 1));
	CHECK(ng[0] + ng[1] + ng[2] == 1U, "the shifted date replaces the unshifted one (exactly one result)");
	CHECK(ng[bucket] == 1U, "result is filed under the right year (same / previous / next)");
	if (ng[bucket] == 1U) {
		const struct md_s md = unpack_cand(got[bucket][0]);
		CHECK(orc_valid_date_p(ry, (int)md.m, (int)md.d), "shifted date is a valid date");
		CHECK(orc_daynum(ry, (int)md.m, (int)md.d) == want, "shifted date is the date N (business) days away");
	}
	WITNESS_POINT();
#else
# error pick an obligation
#endif
}
