/* C11: the queue is a per-user map by UID; users cannot touch others' tasks.
 * Real code: src/echsd.c (included textually via echsd_env.h): _inject_task1,
 * _eject_task1, get_task, make_task, free_task, put_task_slot, get_task_slot,
 * the ownership predicates; src/task.c (free_echs_task, echs_task_rset_ownr).
 * A history of NOP operations {add/replace, cancel, look-up} by two peer uids over
 * three symbolic 64-bit oids, checked against a 3-entry reference map kept here. */
#define ECHS_TASK_POOL_INIZ	(4U)
#define ECHS_CHLD_POOL_INIZ	(1U)	/* one allocation for the whole run: pool growth means malloc() of a symbolic size */
#define ENV_MAXP 4
#include "echsd_env.h"

#if !defined NOP
# define NOP 4
#endif
#if !defined NOID
# define NOID 3
#endif
#define ARR_MAX 1
#define INPUTS XA(oid, NOID) XA(op, NOP) XA(who, NOP) XA(which, NOP) X(root)
#include "sym.h"
#include "arrstrm.h"

static struct passwd PWA = {.pw_name = "a", .pw_uid = 1000, .pw_gid = 1000, .pw_dir = "/a", .pw_shell = "/bin/sh"};
static struct passwd PWB = {.pw_name = "b", .pw_uid = 1001, .pw_gid = 1001, .pw_dir = "/b", .pw_shell = "/bin/sh"};
struct passwd *getpwuid(uid_t u) { return u == 1000 ? &PWA : u == 1001 ? &PWB : NULL; }
struct passwd *getpwnam(const char *n) { (void)n; return NULL; }
int close(int fd) { (void)fd; return 0; }
int openat(int dfd, const char *fn, int fl, ...) { (void)dfd; (void)fn; (void)fl; return -1; }

#if defined VERIF_CBMC
/* the task table is calloc()ed with a size computed from the colliding keys (2^k, k up to 64):
 * an allocation of symbolic size makes the formula explode even on paths that never grow the
 * table.  calloc/free of the table are redirected (goto-instrument --replace-calls) to two
 * static zeroed tables: the initial 16 slots and one grown table of up to TABMAX slots;
 * any other request flags the harness bound. */
#if !defined TABMAX
# define TABMAX 16
#endif
static struct tmap_s env_tab0[16], env_tab1[TABMAX];
static int env_tab0_used, env_tab1_used;
void free_real(void *p);
void *env_calloc(size_t n, size_t sz)
{
	if (sz == sizeof(struct tmap_s) && n == 16U && !env_tab0_used) {
		env_tab0_used = 1;
		return env_tab0;
	}
	if (sz == sizeof(struct tmap_s) && n <= TABMAX && !env_tab1_used) {
		env_tab1_used = 1;
		return env_tab1;
	}
	env_overflow = 1;
	return NULL;
}
void env_free(void *p)
{
	if (p == (void*)env_tab0 || p == (void*)env_tab1) return;
	free_real(p);
}
#endif

/* streams: one static array-backed stream per operation slot (a far-future occurrence) */
static struct arrstrm_s ST[NOP];

/* reference map */
static bool ref_present[NOID];
static uid_t ref_owner[NOID];
static struct echs_task_s *ref_task[NOID];

void harness(void)
{
	sym_load();
	ENV_INIT();
	for (unsigned k = 0; k < NOID; k++) {
		ASSUME(in.oid[k] != 0);
		for (unsigned j = 0; j < k; j++) ASSUME(in.oid[k] != in.oid[j]);
#if defined LOWFIX
		/* the table slot of each oid (its low 4 bits) is fixed per oid, all higher bits are symbolic:
		 * keeps the open-addressing index concrete; colliding low bits are the table_growth obligation */
		ASSUME((in.oid[k] & 15) == (long long)(3 * k + 1));
#endif
#if defined LOWBITS
		/* keep the table small: any two oids differ within their low LOWBITS bits
		 * (oids sharing more low bits make put_task_slot() ask for 2^(k+1) slots) */
		for (unsigned j = 0; j < k; j++) ASSUME(((in.oid[k] ^ in.oid[j]) & ((1LL << LOWBITS) - 1)) != 0);
#endif
	}
#if defined RESIZE
	/* table growth: two UIDs that share their low SHARE bits (4..RESIZE) are stored one
	 * after the other, a third one is looked up */
	{
		ASSUME(in.root >= 4 && in.root <= RESIZE);
		const unsigned sh = (unsigned)in.root;
		ASSUME(((in.oid[0] ^ in.oid[1]) & ((1LL << sh) - 1)) == 0 && (((in.oid[0] ^ in.oid[1]) >> sh) & 1) == 1);
		CHECK(ini_task_ht() == 0, "task table set up");
		static struct echs_task_s TA, TB;
		TA.oid = (echs_toid_t)in.oid[0], TB.oid = (echs_toid_t)in.oid[1];
		_task_t a = make_task(TA.oid);
		CHECK(a != NULL, "first UID stored");
		if (a == NULL) return;
		a->t = &TA;
		_task_t b = make_task(TB.oid);
		CHECK(b != NULL, "a UID sharing many low bits with a stored one is stored too");
		if (b == NULL) return;
		b->t = &TB;
		CHECK(get_task(TA.oid) == a && get_task(TB.oid) == b, "both UIDs map to their own task after the table grew");
		CHECK(get_task((echs_toid_t)in.oid[NOID - 1]) == NULL, "a UID never stored is not found");
		WITNESS_POINT();
	}
#else
	ASSUME(in.root == 0 || in.root == 1);
	/* the daemon runs as root (system daemon) or as user A (per-user daemon) */
	meself.uid = in.root ? 0 : 1000;
	ENV_NOW = 1.0e9;
	CHECK(ini_task_ht() == 0, "task table set up");

	for (unsigned i = 0; i < NOP; i++) {
		ASSUME(in.op[i] >= 0 && in.op[i] <= 2 && in.which[i] >= 0 && in.which[i] < NOID && (in.who[i] == 1000 || in.who[i] == 1001));
		const unsigned w = (unsigned)in.which[i];
		const echs_toid_t oid = (echs_toid_t)in.oid[w];
		const uid_t who = (uid_t)in.who[i];
		if (in.op[i] == 0) {
			/* add or replace */
			struct echs_task_s *t = malloc(sizeof(*t));
			ASSUME(t != NULL);
			memset(t, 0, sizeof(*t));
			arr_init(&ST[i], 1U);
			ST[i].ev[0].from.y = 2090, ST[i].ev[0].from.m = 1, ST[i].ev[0].from.d = 1, ST[i].ev[0].from.ms = ECHS_ALL_SEC;
			t->oid = oid, t->strm = (echs_evstrm_t)&ST[i], t->owner = NUMMAPSTR_NAN, t->max_simul = 63;
			const int rc = _inject_task1(NULL, t, who);
			/* what a map would do: a non-root daemon only serves its own user */
			const bool allowed = (in.root || who == 1000) && (!ref_present[w] || ref_owner[w] == who);
			CHECK((rc == 0) == allowed, "add/replace succeeds exactly when the caller may own that UID");
			if (rc == 0) {
				ref_present[w] = true, ref_owner[w] = who, ref_task[w] = t;
			}
		} else if (in.op[i] == 1) {
			const int rc = _eject_task1(NULL, oid, who);
			const bool allowed = ref_present[w] && ref_owner[w] == who;
			CHECK((rc == 0) == allowed, "cancel succeeds exactly for an existing task of the caller");
			if (rc == 0) ref_present[w] = false;
		}
		/* look-up of every UID agrees with the map after every operation */
		for (unsigned k = 0; k < NOID; k++) {
			_task_t x = get_task((echs_toid_t)in.oid[k]);
			CHECK((x != NULL) == ref_present[k], "the queue holds exactly the tasks added and not cancelled");
			if (x != NULL && ref_present[k]) {
				CHECK(x->t == ref_task[k], "a UID maps to the task last stored under it");
				CHECK(echs_task_owner(x->t) == ref_owner[k] && x->dflt_cred.u == ref_owner[k], "the task belongs to and runs as the user who stored it");
			}
		}
		CHECK(!env_overflow, "stand-in registries not exhausted (bound of this harness)");
	}
	WITNESS_POINT();
#endif
}
