/* C11 (listing): GET /sched and GET /queue show exactly the caller's tasks; a request coming from
 * user A never lists or dumps tasks owned by user B.
 * Real code: src/echsd.c (included textually via echsd_env.h): cmd_http() -- the uid gate, the
 * choice of the uid that is served, the walk over the task table for /sched, the queue file
 * that is opened for /queue.  echs_http_send_sched() is replaced by a recorder (which task is
 * listed), the file name is captured by the snprintf stand-in, the trie look-up behind
 * chkpntedp() is cut.  Peer uid, requested uid (incl. "none") and the owners of the two queued
 * tasks are symbolic. */
#define ECHS_TASK_POOL_INIZ	(1U)
#define ECHS_CHLD_POOL_INIZ	(1U)
#define ENV_OWN_SNPRINTF
#include "echsd_env.h"
#include <sys/stat.h>

#define INPUTS X(peer) X(req) X(own0) X(own1) X(rou)
#include "sym.h"

static struct echs_task_s T0, T1;
static struct _task_s W0, W1;
static struct tmap_s HT[4];
static int listed0, listed1, strayl;
static long long file_uid = -1;
static int opened, status;

void rec_send_sched(_task_t t, const char *tuid, size_t tusz)
{
	(void)tuid; (void)tusz;
	if (t == &W0) listed0++;
	else if (t == &W1) listed1++;
	else strayl = 1;
}
#if defined VERIF_CBMC
/* task names: the native replay interns real ones */
const char *obint_name(obint_t x) { (void)x; return "t"; }
ndnd_t *rec_trie_find(const ndtr_t *t, const ndnd_t *n) { (void)t; (void)n; return NULL; }
#endif
int snprintf(char *buf, size_t z, const char *fmt, ...)
{
	/* "echsq_%u.ics": remember whose queue file is asked for */
	if (fmt[0] == 'e' && fmt[1] == 'c' && z >= 8U) {
		va_list ap;
		va_start(ap, fmt);
		file_uid = (long long)va_arg(ap, unsigned int);
		va_end(ap);
		buf[0] = 'q', buf[1] = '\0';
		return 1;
	}
	if (z) buf[0] = '\0';
	return 0;
}
int fstatat(int d, const char *fn, struct stat *st, int fl) { (void)d; (void)fn; (void)fl; st->st_size = 10; return 0; }
int openat(int dfd, const char *fn, int fl, ...) { (void)dfd; (void)fl; if (fn[0] == 'q') opened++; return 77; }
ssize_t write(int fd, const void *b, size_t n) { (void)fd; if (!status) status = ((const char*)b)[9]; return (ssize_t)n; }
ssize_t sendfile(int o, int i, off_t *off, size_t n) { (void)o; (void)i; (void)off; return (ssize_t)n; }
int close(int fd) { (void)fd; return 0; }
struct passwd *getpwuid(uid_t u) { (void)u; return NULL; }
struct passwd *getpwnam(const char *n) { (void)n; return NULL; }

void harness(void)
{
	sym_load();
	ENV_INIT();
	/* uids are 31-bit values; the request names a uid or none (NOT_A_UID) */
	ASSUME(in.peer >= 0 && in.peer < 0x7fffffffLL && in.own0 >= 1 && in.own0 < 0x7fffffffLL && in.own1 >= 1 && in.own1 < 0x7fffffffLL);
	ASSUME((in.req >= 0 && in.req < 0x7fffffffLL) || in.req == 0xffffffffLL);
	ASSUME(in.rou == ECHS_HTTP_QUEUE || in.rou == ECHS_HTTP_SCHED);
#if defined VERIF_CBMC
	const echs_toid_t o0 = 3U, o1 = 6U;
#else
	const echs_toid_t o0 = intern("task-a", 6U), o1 = intern("task-b", 6U);
#endif
	T0.oid = o0, T0.owner = nummapstr_bang_num((unsigned)in.own0);
	T1.oid = o1, T1.owner = nummapstr_bang_num((unsigned)in.own1);
	W0.t = &T0, W1.t = &T1;
	task_ht = HT, ztask_ht = 4U;
	HT[3] = (struct tmap_s){o0, &W0};
	HT[2] = (struct tmap_s){o1, &W1};
	struct echs_cmd_http_s cmd = {.rou = (int)in.rou, .uid = (uid_t)in.req, .params = NULL, .paramz = 0U};
	const ncred_t c = {.u = (uid_t)in.peer, .g = 100};
	(void)cmd_http(NULL, 5, &cmd, c);

	const bool root = in.peer == 0;
	CHECK(!strayl, "only queued tasks are listed");
	if (!root) {
		/* whatever uid the request names, an ordinary user sees his own tasks only */
		CHECK(!listed0 || in.own0 == in.peer, "a task is listed to its owner only");
		CHECK(!listed1 || in.own1 == in.peer, "a task is listed to its owner only");
		CHECK(!opened || file_uid == in.peer, "the queue file served is the caller's own");
		if (status == '2' && in.rou == ECHS_HTTP_SCHED) {
			CHECK((in.own0 != in.peer || listed0 == 1) && (in.own1 != in.peer || listed1 == 1), "a successful listing shows every task of the caller exactly once");
		}
	} else {
		/* root asks on behalf of the named user */
		CHECK(!listed0 || in.own0 == in.req, "root's listing for user U shows U's tasks");
		CHECK(!listed1 || in.own1 == in.req, "root's listing for user U shows U's tasks");
	}
	WITNESS_POINT();
}
