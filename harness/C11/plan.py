"""C11 -- the queue is a per-user map by UID; users cannot touch others' tasks."""
NOTE = ("_inject_task1/_eject_task1/get_task with the open-addressing task table (put_task_slot/get_task_slot, resizing) and "
        "the ownership checks executed symbolically over a history of NOP add-or-replace / cancel operations by two peer "
        "uids on three symbolic 64-bit oids, compared after every operation with a reference map kept by the harness.")
ASSUMPTIONS = ["command layer entered with the peer uid directly (socket credentials outside)", "getpwuid: both users exist",
               "any two oids differ within their low LOWBITS bits (bounds the table the real code allocates)",
               "libev/spawn stand-ins of harness/common/echsd_env.h; array-backed streams"]
FP = {'ev_periodic_start.function_pointer_call.1': ['resched'], 'echs_evstrm_pop.function_pointer_call.1': ['arr_next'],
      'echs_evstrm_next.function_pointer_call.1': ['arr_next'], 'free_echs_evstrm.function_pointer_call.1': ['arr_free']}
def ob(name, nop, lowbits, **kw):
    o = dict(name=name, src='h_queue.c', defs=['NOP=%d' % nop, 'LOWBITS=%d' % lowbits], units=['src/task.c'], incl=['src/echsd.c'],
             replay_units='all', replay_extra_units=['src/logger.c'], unwind=max(nop, 4) + 2,
             unwindset={'put_task_slot.*': (1 << lowbits) + 18, 'get_task_slot.*': 18, 'make_task_pool.*': 5, 'memset.*': 4, 'strlen.*': 10, 'strdup.*': 10, 'strcpy.*': 10, 'memcpy.*': 10},
             solver='minisat', slice_formula=True, timeout=800, mem_gb=8, object_bits=12, checks=['--bounds-check', '--pointer-check'], restrict_fp=FP, replace_calls={'add_chkpnt': 'env_add_chkpnt', 'make_chld': 'env_make_chld', 'free_chld': 'env_free_chld', 'make_task_pool': 'env_make_task_pool', 'calloc': 'env_calloc', 'free': 'env_free'}, replace_calls2={'free_real': 'free'},
             allow_nobody=['snprintf', 'lseek', 'echs_log', 'echs_errlog', 'obint_name', 'dt_strf', 'free_strlst'],
             enc=['_inject_task1', '_eject_task1', 'get_task', 'make_task', 'free_task', 'put_task_slot', 'get_task_slot', 'echs_task_owned_by_p', 'free_echs_task', 'echs_task_rset_ownr'],
             sym='the three oids, the operation history (kind, which oid, which user), root vs per-user daemon',
             bounds='%d operations, 3 oids, 2 users, table <= %d slots' % (nop, 1 << (lowbits + 1)), outside='longer histories; GET /queue and /sched rendering; socket credentials',
             stubs=['calloc/free of the task table redirected to static tables (16 slots + one grown table; an allocation of symbolic size is beyond the solver)', 'make_task_pool replaced by a chain of separate objects (one malloc-ed array = every task access at a symbolic offset)', 'make_chld/free_chld replaced by a separate-objects allocator (the malloc-threaded pool costs > 40 GB of formula)', 'add_chkpnt() cut (goto-instrument --replace-calls): checkpoint bookkeeping is C06', 'libev/spawn/passwd stand-ins (harness/common/echsd_env.h)', 'array-backed streams', 'hook pool sizes'])
    o.update(kw)
    return o
OBLIGATIONS = [
    ob('queue_op2_oid2', 2, 4, defs=['NOP=2', 'NOID=2', 'LOWFIX'], bounds='2 operations, 2 oids with fixed distinct low 4 bits and symbolic upper 60 bits, 2 users'),
    ob('queue_op3_oid2', 3, 4, defs=['NOP=3', 'NOID=2', 'LOWFIX'], bounds='3 operations, 2 oids with fixed distinct low 4 bits and symbolic upper 60 bits, 2 users', timeout=3000, mem_gb=8, tiers=('thorough',)),
    ob('queue_op3', 3, 4, defs=['NOP=3', 'LOWFIX'], bounds='3 operations, 3 oids with fixed distinct low 4 bits (slots 1,4,7) and symbolic upper 60 bits, 2 users', timeout=800, mem_gb=12),
    ob('queue_op4', 4, 4, defs=['NOP=4', 'LOWFIX'], bounds='4 operations, same oids', tiers=('thorough',), timeout=3400, mem_gb=30),
    ob('queue_op3_anylow', 3, 4, bounds='3 operations, 3 oids differing within their low 4 bits (no table growth)', tiers=('thorough',), timeout=3400, mem_gb=40),
    ob('table_growth_32_64', 1, 4, defs=['NOP=1', 'RESIZE=5', 'TABMAX=64'], bounds='two oids sharing their low 4..5 bits: table grows to 32..64 slots', timeout=800, mem_gb=6,
       unwindset={'put_task_slot.*': 20, 'get_task_slot.*': 18, 'make_task_pool.*': 5, 'memset.*': 4}),
    ob('table_growth', 1, 4, defs=['NOP=1', 'RESIZE=7', 'TABMAX=256'], bounds='two oids sharing their low 4..7 bits: table grows to 32..256 slots', timeout=3400, mem_gb=40, tiers=('thorough',),
       unwindset={'put_task_slot.*': 20, 'get_task_slot.*': 18, 'make_task_pool.*': 5, 'memset.*': 4}),
    dict(name='listing_is_the_callers', src='h_http.c', defs=[], units=['src/task.c'], incl=['src/echsd.c'], replay_units='all', replay_extra_units=['src/logger.c'],
         unwind=6, unwindset={'sym_load.*': 8, 'strlen.*': 4}, solver='minisat', slice_formula=True, timeout=600, mem_gb=4, object_bits=12, checks=['--bounds-check', '--pointer-check'],
         replace_calls={'echs_http_send_sched': 'rec_send_sched', 'ndtr_t_NEDTRIE_FIND': 'rec_trie_find', 'add_chkpnt': 'env_add_chkpnt'},
         allow_nobody=['echs_log', 'echs_errlog', 'lseek', 'dt_strf', 'free_strlst'],
         enc=['cmd_http', 'echs_task_owner', 'echs_task_owned_by_p'], sym='peer uid, requested uid (any or none), owners of the two queued tasks, /queue or /sched',
         bounds='two queued tasks, requests without a tuid= parameter list', outside='the tuid= parameter path; socket credentials; rendering of the bodies',
         stubs=['echs_http_send_sched replaced by a recorder', 'snprintf/fstatat/openat/write/sendfile stand-ins', 'trie look-up behind chkpntedp() cut']),
]
