/* C08 (decomposed): instant arithmetic agrees with the calendar.
 * Real code: src/instant.c, included textually so that its static day-count
 * helpers (__jan00, __doy, __get_mdays) can be used as the shared day-number
 * function D(): lemma LD proves D() == ORC-cal day number + const for every
 * valid date, the binary obligations then compare echs_instant_diff/add with
 * arithmetic over D(), which keeps multiplications/divisions out of the oracle.
 *  -DLD  D(y,m,d) == orc_daynum(y,m,d) + C, __get_mdays == orc_mdays
 *  -DL1  diff(e,b) == (D(e)-D(b)) days + intraday difference
 *  -DL2  add(b,d) valid and D/intraday moved by exactly d   (-DWDAYS)
 *  -DL3  fixup keeps the point in time */
#include "instant.c"
#include "cal.h"

#define INPUTS X(y1) X(m1) X(d1) X(H1) X(M1) X(S1) X(ms1) \
	X(y2) X(m2) X(d2) X(H2) X(M2) X(S2) X(ms2) X(q) X(rem) X(kind)
#include "sym.h"

#if !defined WDAYS
# define WDAYS 400
#endif
#define MSD	86400000

enum { K_TIMED = 0, K_ALLDAY = 1, K_ALLSEC = 2 };

static echs_instant_t mk(long long y, long long m, long long d, long long H, long long M, long long S, long long ms, long long kind)
{
	echs_instant_t i = {.u = 0U};
	i.y = y, i.m = m, i.d = d;
	if (kind == K_ALLDAY) {
		i.H = ECHS_ALL_DAY, i.M = 0, i.S = 0, i.ms = 0;
	} else {
		i.H = H, i.M = M, i.S = S;
		i.ms = kind == K_ALLSEC ? ECHS_ALL_SEC : ms;
	}
	return i;
}

static bool valid_p(long long y, long long m, long long d, long long H, long long M, long long S, long long ms)
{
	return y >= 1901 && y <= 2099 && m >= 1 && m <= 12 && d >= 1 && d <= 31 &&
		orc_valid_date_p((int)y, (int)m, (int)d) &&
		H >= 0 && H < 24 && M >= 0 && M < 60 && S >= 0 && S < 60 && ms >= 0 && ms < 1000;
}

/* the code's own day count */
static int D(echs_instant_t i)
{
	return (int)(__jan00(i.y) + __doy(i));
}

static int intra(echs_instant_t i)
{
	if (echs_instant_all_day_p(i)) return 0;
	return (int)(((i.H * 60U + i.M) * 60U + i.S) * 1000U + (echs_instant_all_sec_p(i) ? 0U : i.ms));
}

static bool inst_valid_p(echs_instant_t i, long long kind)
{
	if (!(i.y >= 1901 && i.y <= 2099 && i.m >= 1 && i.m <= 12 && i.d >= 1 && i.d <= __get_mdays(i.y, i.m))) return false;
	if (kind == K_ALLDAY) return i.H == ECHS_ALL_DAY;
	if (i.H >= 24 || i.M >= 60 || i.S >= 60) return false;
	if (kind == K_ALLSEC) return i.ms == ECHS_ALL_SEC;
	return i.ms < 1000;
}

void harness(void)
{
	sym_load();
	ASSUME(in.kind >= K_TIMED && in.kind <= K_ALLSEC);
#if defined KIND
	ASSUME(in.kind == KIND);
#endif
	ASSUME(valid_p(in.y1, in.m1, in.d1, in.H1, in.M1, in.S1, in.ms1));
	const echs_instant_t b = mk(in.y1, in.m1, in.d1, in.H1, in.M1, in.S1, in.ms1, in.kind);

#if defined LO
	/* the division-free oracle specialisation equals the textbook rule on 1901..2100 */
	ASSUME(in.y2 >= 1901 && in.y2 <= 2100);
	CHECK(orc_leaps_before_full((int)in.y2) == 460 + (((int)in.y2 - 1901) >> 2), "fast leap count equals the textbook count");
	CHECK(in.y2 == 2100 || orc_leap_p_full((int)in.y2) == (((int)in.y2 & 3) == 0), "fast leap rule equals the textbook rule");
	WITNESS_POINT();
#elif defined LD
	/* 1901-01-01 is day 109573 after 1601-01-00 in the code's count */
	CHECK((long long)D(b) == orc_daynum(b.y, b.m, b.d) + D(mk(1901, 1, 1, 0, 0, 0, 0, K_ALLDAY)), "the code's day count is the calendar day number");
	CHECK((int)__get_mdays(b.y, b.m) == orc_mdays(b.y, b.m), "month lengths agree with the calendar");
	WITNESS_POINT();
#elif defined L1
	ASSUME(valid_p(in.y2, in.m2, in.d2, in.H2, in.M2, in.S2, in.ms2));
	const echs_instant_t e = mk(in.y2, in.m2, in.d2, in.H2, in.M2, in.S2, in.ms2, in.kind);
	const echs_idiff_t df = echs_instant_diff(e, b);
	/* expected, normalised the way a (days, ms-of-day) pair is */
	int xd = D(e) - D(b), xi = intra(e) - intra(b);
	if (xi < 0) {
		xi += MSD, xd--;
	}
	CHECK(df.d == (long long)xd * (long long)MSD + xi, "diff equals elapsed time on the calendar");
	WITNESS_POINT();
#elif defined L2
	/* duration = q days + rem ms, same sign */
	ASSUME(in.q >= -WDAYS && in.q <= WDAYS && in.rem > -MSD && in.rem < MSD);
	ASSUME((in.q >= 0 && in.rem >= 0) || (in.q <= 0 && in.rem <= 0));
	long long rem = in.rem;
# if defined REM0
	ASSUME(rem == 0);
# endif
# if defined REMMAX
	ASSUME(rem > -REMMAX && rem < REMMAX);
# endif
# if defined REMSTEP
	ASSUME(rem % REMSTEP == 0);
# endif
	if (in.kind == K_ALLDAY) {
		;
	} else if (in.kind == K_ALLSEC) {
		ASSUME(rem % 1000 == 0);
	}
	const long long dur = in.q * (long long)MSD + rem;
	if (in.kind == K_ALLDAY) {
		rem = 0;	/* documented truncation to the instant's resolution */
	}
	const echs_instant_t r = echs_instant_add(b, (echs_idiff_t){dur});
	int xd = D(b) + (int)in.q, xi = intra(b) + (int)rem;
	if (xi < 0) {
		xi += MSD, xd--;
	} else if (xi >= MSD) {
		xi -= MSD, xd++;
	}
	/* stay inside 1901..2099 */
	ASSUME(xd >= D(mk(1901, 1, 1, 0, 0, 0, 0, K_ALLDAY)) && xd <= D(mk(2099, 12, 31, 0, 0, 0, 0, K_ALLDAY)));
	CHECK(inst_valid_p(r, in.kind), "add yields a valid instant of the same kind");
	CHECK(D(r) == xd, "add lands on the right day");
	CHECK(intra(r) == xi, "add lands on the right millisecond of the day");
	WITNESS_POINT();
#elif defined L3
	/* overflowed fields, each within what its bit-field can carry onwards */
	ASSUME(in.m2 >= 1 && in.m2 <= 36 && in.d2 >= 1 && in.d2 <= 62);
	ASSUME(in.H2 >= 0 && in.H2 <= 48 && in.M2 >= 0 && in.M2 <= 120 && in.S2 >= 0 && in.S2 <= 62 && in.ms2 >= 0 && in.ms2 <= 1022);
	ASSUME(in.y1 <= 2096);
	const echs_instant_t x = mk(in.y1, in.m2, in.d2, in.H2, in.M2, in.S2, in.ms2, in.kind);
	/* raw value: month carries into the year, then days/ms simply add up */
	const int ry = (int)in.y1 + ((int)in.m2 - 1) / 12, rm = ((int)in.m2 - 1) % 12 + 1;
	long long rawi = 0;
	if (in.kind != K_ALLDAY) {
		rawi = ((in.H2 * 60 + in.M2) * 60 + in.S2) * 1000 + (in.kind == K_TIMED ? in.ms2 : 0);
	}
	const int xd = D(mk(ry, rm, 1, 0, 0, 0, 0, K_ALLDAY)) + (int)in.d2 - 1 + (int)(rawi / MSD);
	const int xi = (int)(rawi % MSD);
	const echs_instant_t f = echs_instant_fixup(x);
	CHECK(inst_valid_p(f, in.kind), "fixup yields a valid instant");
	CHECK(D(f) == xd && intra(f) == xi, "fixup keeps the point in time");
	WITNESS_POINT();
#else
# error pick an obligation
#endif
}
