/* C08: instant arithmetic and epoch conversions agree with the calendar.
 * Real code: src/instant.c (echs_instant_diff/add/fixup), src/instant.h
 * (ordering), src/tzob.c (echs_instant_to_epoch, epoch_to_echs_instant).
 * One obligation per -DL<n> (see DESIGN.md section 6, C08). */
#if defined HAVE_CONFIG_H
# include "config.h"
#endif
#include <stdbool.h>
#include <time.h>
#include "instant.h"
#include "cal.h"

#define INPUTS X(y1) X(m1) X(d1) X(H1) X(M1) X(S1) X(ms1) \
	X(y2) X(m2) X(d2) X(H2) X(M2) X(S2) X(ms2) X(dur) X(kind) X(t)
#include "sym.h"

#if !defined WDAYS
# define WDAYS 400
#endif
#if !defined YLO
# define YLO 1901
#endif
#if !defined YHI
# define YHI 2099
#endif

enum { K_TIMED = 0, K_ALLDAY = 1, K_ALLSEC = 2 };

static echs_instant_t mk(long long y, long long m, long long d, long long H, long long M, long long S, long long ms, long long kind)
{
	echs_instant_t i = {.u = 0U};
	i.y = y, i.m = m, i.d = d;
	if (kind == K_ALLDAY) {
		i.H = ECHS_ALL_DAY, i.M = 0, i.S = 0, i.ms = 0;
	} else {
		i.H = H, i.M = M, i.S = S;
		i.ms = kind == K_ALLSEC ? ECHS_ALL_SEC : ms;
	}
	return i;
}

static bool valid_p(long long y, long long m, long long d, long long H, long long M, long long S, long long ms)
{
	return y >= YLO && y <= YHI && m >= 1 && m <= 12 && d >= 1 && d <= 31 &&
		orc_valid_date_p((int)y, (int)m, (int)d) &&
		H >= 0 && H < 24 && M >= 0 && M < 60 && S >= 0 && S < 60 && ms >= 0 && ms < 1000;
}

/* milliseconds since 1901-01-01T00:00:00.000 of a (possibly raw) instant */
static long long MS(echs_instant_t i)
{
	long long r = orc_daynum(i.y, i.m, i.d) * 86400000LL;
	if (!echs_instant_all_day_p(i)) {
		r += i.H * 3600000LL + i.M * 60000LL + i.S * 1000LL;
		if (!echs_instant_all_sec_p(i)) {
			r += i.ms;
		}
	}
	return r;
}

static bool inst_valid_p(echs_instant_t i, long long kind)
{
	if (!orc_valid_date_p(i.y, i.m, i.d)) return false;
	if (kind == K_ALLDAY) return i.H == ECHS_ALL_DAY;
	if (i.H >= 24 || i.M >= 60 || i.S >= 60) return false;
	if (kind == K_ALLSEC) return i.ms == ECHS_ALL_SEC;
	return i.ms < 1000;
}

void harness(void)
{
	sym_load();
	ASSUME(in.kind >= K_TIMED && in.kind <= K_ALLSEC);
#if defined KIND
	ASSUME(in.kind == KIND);
#endif
	ASSUME(valid_p(in.y1, in.m1, in.d1, in.H1, in.M1, in.S1, in.ms1));
	echs_instant_t b = mk(in.y1, in.m1, in.d1, in.H1, in.M1, in.S1, in.ms1, in.kind);

#if defined L1
	/* diff(e,b) == true elapsed ms, both signs, any distance inside the range */
	ASSUME(valid_p(in.y2, in.m2, in.d2, in.H2, in.M2, in.S2, in.ms2));
	echs_instant_t e = mk(in.y2, in.m2, in.d2, in.H2, in.M2, in.S2, in.ms2, in.kind);
	echs_idiff_t df = echs_instant_diff(e, b);
	CHECK(df.d == MS(e) - MS(b), "diff equals elapsed time on the proleptic Gregorian calendar");
	WITNESS_POINT();
#elif defined L2
	/* add(b,d) is valid and lies exactly d ms after b (modulo the documented
	 * truncation to the resolution of b) */
	long long lim = (long long)WDAYS * 86400000LL;
	ASSUME(in.dur >= -lim && in.dur <= lim);
	echs_instant_t r = echs_instant_add(b, (echs_idiff_t){in.dur});
	long long want = in.dur;
	if (in.kind == K_ALLDAY) {
		want -= want % 86400000LL;
	} else if (in.kind == K_ALLSEC) {
		want -= want % 1000LL;
	}
	/* stay inside 1901..2099 */
	ASSUME(MS(b) + want >= 0 && MS(b) + want < orc_daynum(2100, 1, 1) * 86400000LL);
	CHECK(inst_valid_p(r, in.kind), "add yields a valid instant of the same kind");
	CHECK(MS(r) == MS(b) + want, "add moves by exactly the duration");
	WITNESS_POINT();
#elif defined L3
	/* fixup of an overflowed instant is the same point in time and valid */
	ASSUME(in.y2 == in.y1 && in.m2 >= 1 && in.m2 <= 12 + 24 && in.d2 >= 1 && in.d2 <= 62);
	ASSUME(in.H2 >= 0 && in.H2 <= 48 && in.M2 >= 0 && in.M2 <= 120 && in.S2 >= 0 && in.S2 <= 62/*6-bit field: 63 + carry would not fit*/ && in.ms2 >= 0 && in.ms2 <= 1022);
	echs_instant_t x = mk(in.y2, in.m2, in.d2, in.H2, in.M2, in.S2, in.ms2, in.kind);
	/* raw value: months beyond 12 carry into the year first */
	int ry = (int)in.y2 + ((int)in.m2 - 1) / 12, rm = ((int)in.m2 - 1) % 12 + 1;
	ASSUME(ry <= 2097);
	long long raw = orc_daynum(ry, rm, 1) * 86400000LL + (in.d2 - 1) * 86400000LL;
	if (in.kind != K_ALLDAY) {
		raw += in.H2 * 3600000LL + in.M2 * 60000LL + in.S2 * 1000LL + (in.kind == K_TIMED ? in.ms2 : 0);
	}
	echs_instant_t f = echs_instant_fixup(x);
	CHECK(inst_valid_p(f, in.kind), "fixup yields a valid instant");
	CHECK(MS(f) == raw, "fixup keeps the point in time");
	WITNESS_POINT();
#elif defined L4A
	/* library instant -> epoch equals calendar seconds since 1970 */
	ASSUME(in.kind != K_ALLDAY);
	time_t t = echs_instant_to_epoch(b);
	CHECK((long long)t == orc_epoch(b.y, b.m, b.d, b.H, b.M, b.S), "instant_to_epoch equals calendar seconds");
	WITNESS_POINT();
#elif defined L4B
	/* library epoch -> instant is the inverse, and valid; the stamp is built as
	 * day k (since 1970) and second-of-day s, both symbolic, which is every stamp */
	ASSUME(in.t >= ORC_UNIX_DAY0 && in.t < orc_daynum(YHI + 1, 1, 1) + ORC_UNIX_DAY0);
	ASSUME(in.dur >= 0 && in.dur < 86400);
# if defined DATEONLY
	ASSUME(in.dur == 0);
# endif
# if defined ONEDAY
	ASSUME(in.t == -1 || in.t == 0);
# endif
	const long long stamp = in.t * 86400LL + in.dur;
	echs_instant_t r = epoch_to_echs_instant((time_t)stamp);
	CHECK(r.y >= 1901 && r.y <= 2099 && r.m >= 1 && r.m <= 12 && r.d >= 1 && r.d <= 31 && orc_valid_date_p(r.y, r.m, r.d), "epoch_to_instant yields a valid date");
	CHECK(r.H < 24 && r.M < 60 && r.S < 60, "epoch_to_instant yields a valid time");
	CHECK(orc_daynum(r.y, r.m, r.d) + ORC_UNIX_DAY0 == in.t, "epoch_to_instant lands on the right day");
	CHECK((long long)r.H * 3600 + r.M * 60 + r.S == in.dur, "epoch_to_instant lands on the right second");
	/* and the library's two directions are mutually inverse */
	CHECK((long long)echs_instant_to_epoch(r) == stamp, "instant_to_epoch(epoch_to_instant(t)) == t");
	WITNESS_POINT();
#elif defined L5
	/* MS is injective on valid instants of one kind (so L1 and L2 imply add(b,diff(e,b)) == e) */
	ASSUME(valid_p(in.y2, in.m2, in.d2, in.H2, in.M2, in.S2, in.ms2));
	echs_instant_t e = mk(in.y2, in.m2, in.d2, in.H2, in.M2, in.S2, in.ms2, in.kind);
	CHECK(MS(e) != MS(b) || e.u == b.u, "calendar reference is injective");
	WITNESS_POINT();
#elif defined L6
	/* ordering predicates: chronological, all-day before timed on the same day,
	 * all-second before milliseconds in the same second */
	ASSUME(valid_p(in.y2, in.m2, in.d2, in.H2, in.M2, in.S2, in.ms2));
	ASSUME(in.t >= K_TIMED && in.t <= K_ALLSEC);
	echs_instant_t e = mk(in.y2, in.m2, in.d2, in.H2, in.M2, in.S2, in.ms2, in.t);
	/* reference: chronological = lexicographic on (y,m,d, H,M,S, ms) with the
	 * all-day form before every time of that day and the all-second form before
	 * every millisecond of that second -- no arithmetic involved */
	bool lt;
	if (in.y1 != in.y2) lt = in.y1 < in.y2;
	else if (in.m1 != in.m2) lt = in.m1 < in.m2;
	else if (in.d1 != in.d2) lt = in.d1 < in.d2;
	else if (in.kind == K_ALLDAY || in.t == K_ALLDAY) lt = in.kind == K_ALLDAY && in.t != K_ALLDAY;
	else if (in.H1 != in.H2) lt = in.H1 < in.H2;
	else if (in.M1 != in.M2) lt = in.M1 < in.M2;
	else if (in.S1 != in.S2) lt = in.S1 < in.S2;
	else if (in.kind == K_ALLSEC || in.t == K_ALLSEC) lt = in.kind == K_ALLSEC && in.t != K_ALLSEC;
	else lt = in.ms1 < in.ms2;
	CHECK(echs_instant_lt_p(b, e) == lt, "lt_p is chronological with sentinels first");
	CHECK(echs_instant_le_p(b, e) == (lt || b.u == e.u), "le_p is lt_p or equal");
	WITNESS_POINT();
#else
# error pick an obligation
#endif
}
