"""C08 -- instant arithmetic and epoch conversions agree with the calendar."""
NOTE = ("echs_instant_diff/add/fixup (src/instant.c), the ordering predicates (src/instant.h) and the library epoch "
        "conversions (src/tzob.c) executed symbolically. The monolithic round trip add(b,diff(e,b))==e finishes on no "
        "back end, so it is decomposed: LD proves the code's own day count D()=__jan00+__doy equal to the independent "
        "ORC-cal day number for every date; L1 (diff == elapsed days/ms over D), L2 (add is valid and moves D and the "
        "ms-of-day by exactly d) then imply the round trip because (D, ms-of-day) identifies a valid instant. "
        "L3 fixup, L4 epoch conversions vs ORC-cal, L6 ordering vs field-lexicographic order.")
ASSUMPTIONS = ["instants valid and inside 1901..2099", "both operands of diff of the same kind (timed / all-day / all-second)",
               "ORC-cal (oracle/cal.h) is the calendar; it is cross-checked natively against timegm() at setup time"]

CK = ['--signed-overflow-check', '--bounds-check', '--div-by-zero-check', '--undefined-shift-check']
ALL_SYM = 'all fields of both instants, the duration (days + ms part), the kind'

def ob(name, d, **kw):
    o = dict(name=name, src='h_inst.c', defs=list(d), units=[], incl=['src/instant.c'], replay_units='all', unwind=3, checks=CK,
             solver='kissat', timeout=600, mem_gb=6, sym=ALL_SYM,
             unwindset={'echs_instant_add.*': 16, 'echs_instant_fixup.*': 6})
    o.update(kw)
    return o

TZ_NOBODY = ['zif_open', 'zif_close', 'zif_find_zrng', 'zif_local_time', 'zif_utc_time', 'hash']
OBLIGATIONS = [
    ob('LO_oracle_fast', ['LO'], enc=['(oracle only) orc_leap_p, orc_leaps_before'], bounds='every year 1901..2100', timeout=120, sym='the year'),
    ob('LD_daycount', ['LD'], enc=['__jan00', '__doy', '__get_mdays'], bounds='every date 1901..2099', timeout=120),
    ob('L1_diff_timed', ['L1', 'KIND=0'], solver='cvc5int', checks=[], enc=['echs_instant_diff', '__jan00', '__doy'], bounds='all pairs of valid timed instants 1901..2099, both signs'),
    ob('L1_diff_allday', ['L1', 'KIND=1'], solver='cvc5int', checks=[], enc=['echs_instant_diff'], bounds='all pairs of all-day instants'),
    ob('L1_diff_allsec', ['L1', 'KIND=2'], solver='cvc5int', checks=[], tiers=('thorough',), timeout=3000, enc=['echs_instant_diff'], bounds='all pairs of all-second instants'),
        ob('L2_add_allday_62d', ['L2', 'KIND=1', 'WDAYS=62'], enc=['echs_instant_add', '__get_mdays'], bounds='|d| <= 62 days', outside='longer durations (thorough: 400 days)', unwindset={'echs_instant_add.*': 5}),
    ob('L2_add_timed_days_62d', ['L2', 'KIND=0', 'WDAYS=62', 'REM0'], enc=['echs_instant_add'], bounds='whole-day durations |d| <= 62 days on timed instants', unwindset={'echs_instant_add.*': 5}),
    ob('L2_add_allday_400d', ['L2', 'KIND=1', 'WDAYS=400'], enc=['echs_instant_add', '__get_mdays'], bounds='|d| <= 400 days (month walk unwound 16)', tiers=('thorough',), timeout=2400),
    ob('L2_add_timed_days_400d', ['L2', 'KIND=0', 'WDAYS=400', 'REM0'], enc=['echs_instant_add'], bounds='whole-day durations |d| <= 400 days on timed instants', tiers=('thorough',), timeout=2400),
    ob('L2_add_timed_ms', ['L2', 'KIND=0', 'WDAYS=0', 'REMMAX=1000'], enc=['echs_instant_add'], bounds='|d| < 1 s at ms resolution: the whole carry chain ms->s->min->h->day->month->year'),
    ob('L2_add_timed_sec', ['L2', 'KIND=0', 'WDAYS=0', 'REMMAX=60000', 'REMSTEP=1000'], enc=['echs_instant_add'], bounds='|d| < 1 min in whole seconds', tiers=('thorough',), timeout=3000),
    ob('L2_add_timed_min', ['L2', 'KIND=0', 'WDAYS=0', 'REMMAX=3600000', 'REMSTEP=60000'], enc=['echs_instant_add'], bounds='|d| < 1 h in whole minutes', tiers=('thorough',), timeout=3000),
    ob('L2_add_timed_hour', ['L2', 'KIND=0', 'WDAYS=0', 'REMSTEP=3600000'], enc=['echs_instant_add'], bounds='|d| < 1 day in whole hours', tiers=('thorough',), timeout=3000),
    ob('L2_add_timed_subday', ['L2', 'KIND=0', 'WDAYS=0'], enc=['echs_instant_add'], bounds='|d| < 1 day at ms resolution (full carry chain, day carry +-1)', tiers=('thorough',), timeout=3400),
    ob('L2_add_allsec_subday', ['L2', 'KIND=2', 'WDAYS=0'], enc=['echs_instant_add'], bounds='|d| < 1 day at second resolution', tiers=('thorough',), timeout=3400),
    ob('L2_add_timed_40d', ['L2', 'KIND=0', 'WDAYS=40'], enc=['echs_instant_add'], bounds='any duration |d| <= 40 days at ms resolution', tiers=('thorough',), timeout=3000, solver='cadical'),
    ob('L3_fixup', ['L3'], enc=['echs_instant_fixup', '__get_mdays'], bounds='month <= 36, day <= 62, hour <= 48, minute <= 120, second <= 62, ms <= 1022'),
    ob('L4A_to_epoch', ['L4A', 'ORC_FAST'], src='inst.c', incl=None, units=['src/instant.c', 'src/tzob.c'], solver='cvc5int', checks=[], replay_units='all',
       enc=['echs_instant_to_epoch', '__inst_to_epoch'], bounds='all valid timed instants 1901..2099', allow_nobody=TZ_NOBODY),
    ob('L4B_from_epoch_days', ['L4B', 'ORC_FAST', 'DATEONLY'], src='inst.c', incl=None, units=['src/instant.c', 'src/tzob.c'], replay_units='all', checks=['--bounds-check'],
       enc=['epoch_to_echs_instant', '__epoch_to_inst', 'echs_instant_to_epoch'], bounds='every midnight stamp of 1901..2099 (date part; both directions mutually inverse)', allow_nobody=TZ_NOBODY),
    ob('L4B_from_epoch_day1970', ['L4B', 'ORC_FAST', 'ONEDAY'], src='inst.c', incl=None, units=['src/instant.c', 'src/tzob.c'], replay_units='all', checks=['--bounds-check'],
       enc=['epoch_to_echs_instant', '__epoch_to_inst'], bounds='every second of the days 1969-12-31 and 1970-01-01 (time part, both signs of the stamp)', allow_nobody=TZ_NOBODY),
    ob('L4B_from_epoch', ['L4B', 'ORC_FAST'], src='inst.c', incl=None, units=['src/instant.c', 'src/tzob.c'], replay_units='all', checks=['--bounds-check'], tiers=('thorough',), timeout=3400,
       enc=['epoch_to_echs_instant', '__epoch_to_inst', 'echs_instant_to_epoch'], bounds='all epoch seconds of 1901..2099', allow_nobody=TZ_NOBODY),
    ob('L6_order', ['L6'], src='inst.c', incl=None, units=['src/instant.c'], enc=['echs_instant_lt_p', 'echs_instant_le_p'], bounds='all pairs of valid instants, all kind combinations'),
]
