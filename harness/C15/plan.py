"""C15 -- Hijri <-> Gregorian conversion is a consistent bijection (src/scale.c + both data tables)."""
NOTE = ("echs_instant_rescale, echs_scale_ndim, echs_scale_wday with g2mjd/mjd2g/hij2mjd/mjd2hij/ht2mjd/mjd2ht executed "
        "symbolically; the Gregorian day is one symbolic date over all of 1901..2099, one query per Hijri variant "
        "(sliced by year range where the arithmetic kernels need it); table scans unwound to the table lengths.")
ASSUMPTIONS = ["Gregorian source date valid and inside 1901..2099", "ORC-cal (oracle/cal.h) is the calendar"]
NAMES = {1: 'IA', 2: 'IC', 3: 'IIA', 4: 'IIC', 5: 'IIIA', 6: 'IIIC', 7: 'IVA', 8: 'IVC', 9: 'UMMULQURA', 10: 'DIYANET'}
OBLIGATIONS = []
def ob(s, name, ylo=None, yhi=None, **kw):
    defs = ['SCALE=%d' % s, 'ORC_FAST'] + (['YLO=%d' % ylo, 'YHI=%d' % yhi] if ylo else [])
    o = dict(
        name=name, src='h_scale.c', defs=defs, units=[], incl=['src/scale.c'], replay_units='all',
        unwind=3, unwindset={'mjd2ht.*': 1760}, solver='kissat', slice_formula=True, timeout=800, mem_gb=4,
        checks=['--bounds-check', '--div-by-zero-check'],
        enc=['echs_instant_rescale', 'g2mjd', 'mjd2g', 'hij2mjd', 'mjd2hij', 'ht2mjd', 'mjd2ht', 'echs_scale_ndim', 'echs_scale_wday', '__hij_inty_p'],
        sym='the Gregorian date (year, month, day)', bounds='every day of %d..%d' % (ylo or 1901, yhi or 2099),
        outside='dates outside 1901..2099')
    o.update(kw)
    return o
for s in range(1, 9):
    OBLIGATIONS.append(ob(s, 'scale_%s' % NAMES[s]))
# the two table-based variants scan 1741 month starts per conversion: one query per half century
for s in (9, 10):
    for ylo, yhi in ((1901, 1950), (1951, 2000), (2001, 2050), (2051, 2099)):
        OBLIGATIONS.append(ob(s, 'scale_%s_%d_%d' % (NAMES[s], ylo, yhi), ylo, yhi))
