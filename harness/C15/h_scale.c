/* C15: Hijri <-> Gregorian scale conversion is a consistent bijection.
 * Real code: src/scale.c (included textually, both data tables compiled in).
 * -DSCALE=<1..10> picks the Hijri variant; the Gregorian day is symbolic over
 * the whole of 1901..2099 (YLO/YHI can slice the range). */
#include "scale.c"
#include "cal.h"

#define INPUTS X(y) X(m) X(d)
#include "sym.h"

#if !defined YLO
# define YLO 1901
#endif
#if !defined YHI
# define YHI 2099
#endif
#define ORC_MJD0	15386	/* scale.c's day number of 1901-01-01: it counts MJD + 1 throughout (g2mjd, the month-start
				 * tables); checked below for every date, so the coverage test uses the code's own convention */

static echs_instant_t mkg(int y, int m, int d)
{
	echs_instant_t i = {.u = 0U};
	i.y = y, i.m = m, i.d = d, i.H = ECHS_ALL_DAY;
	return i;
}

void harness(void)
{
	const echs_scale_t s = (echs_scale_t)SCALE;
	sym_load();
	ASSUME(in.y >= YLO && in.y <= YHI && in.m >= 1 && in.m <= 12 && in.d >= 1 && in.d <= 31);
	ASSUME(orc_valid_date_p((int)in.y, (int)in.m, (int)in.d));
	const int y = (int)in.y, m = (int)in.m, d = (int)in.d;
	const long long mjd = orc_daynum(y, m, d) + ORC_MJD0;
	const echs_instant_t g = mkg(y, m, d);
	CHECK((long long)g2mjd((struct ymd_s){(unsigned)y, (unsigned)m, (unsigned)d}) == mjd, "the code's day number is the calendar day count (MJD + 1)");
	const echs_instant_t h = echs_instant_rescale(g, s);

#if SCALE >= 9
	/* table based: coverage is [first month start, last month start) */
# if SCALE == 9
	const unsigned int *cal = dat_ummulqura; const size_t nm = NM(dat_ummulqura);
# else
	const unsigned int *cal = dat_diyanet; const size_t nm = NM(dat_diyanet);
# endif
	const bool covered = mjd >= (long long)MT(cal)[0] && mjd < (long long)MT(cal)[nm - 1U];
	if (!covered) {
		CHECK(echs_nul_instant_p(h), "date outside the table's coverage is rejected");
		/* (one witness point for both outcomes: year slices in the middle of a table have no
		 * uncovered date, slices beyond its end have no covered one) */
		goto out;
	}
#endif
	CHECK(!echs_nul_instant_p(h), "date inside the coverage converts");
	CHECK(echs_instant_scale(h) == s, "image carries the target scale");
	const echs_instant_t hs = echs_instant_detach_scale(h);
	CHECK(hs.m >= 1 && hs.m <= 12 && hs.d >= 1 && hs.d <= 30, "image is a Hijri date");
	CHECK(hs.d <= echs_scale_ndim(s, hs.y, hs.m), "image day within the reported month length");

	/* round trip */
	const echs_instant_t back = echs_instant_rescale(h, SCALE_GREGORIAN);
	CHECK(back.u == g.u, "converting back returns the original date");

	/* weekday of the image equals weekday of the Gregorian day; both weekday
	 * functions agree with the calendar reference (MON=1..SUN=7) */
	const unsigned int wref = (unsigned int)orc_wday(y, m, d) + 1U;
	CHECK(echs_scale_wday(SCALE_GREGORIAN, y, m, d) == wref, "Gregorian weekday agrees with the calendar");
	CHECK(echs_scale_wday(s, hs.y, hs.m, hs.d) == wref, "Hijri weekday equals the weekday of its Gregorian image");

	/* successor: the image of g+1 is the day after the image of g */
	int y2 = y, m2 = m, d2 = d + 1;
	if (d2 > orc_mdays(y, m)) {
		d2 = 1;
		if (++m2 > 12) {
			m2 = 1, y2++;
		}
	}
	if (y2 <= 2099) {
		const echs_instant_t h2 = echs_instant_rescale(mkg(y2, m2, d2), s);
#if SCALE >= 9
		if (mjd + 1 >= (long long)MT(cal)[nm - 1U]) {
			CHECK(echs_nul_instant_p(h2), "first day beyond the coverage is rejected");
		} else
#endif
		{
			const echs_instant_t n = echs_instant_detach_scale(h2);
			bool same_month = n.y == hs.y && n.m == hs.m && n.d == hs.d + 1U;
			bool next_month = n.d == 1U &&
				((n.y == hs.y && n.m == hs.m + 1U) || (n.y == hs.y + 1U && n.m == 1U && hs.m == 12U)) &&
				hs.d == echs_scale_ndim(s, hs.y, hs.m);
			CHECK(same_month || next_month, "consecutive days map to consecutive days, month length = distance of month starts");
		}
	}
#if SCALE >= 9
out:
#endif
	WITNESS_POINT();
}
