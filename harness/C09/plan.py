"""C09 -- every rule terminates and stays in bounds; empty sets end the stream."""
import importlib.util, os
_spec = importlib.util.spec_from_file_location('plan_C01', os.path.join(os.path.dirname(__file__), '..', 'C01', 'plan.py'))
_c01 = importlib.util.module_from_spec(_spec); _spec.loader.exec_module(_c01)
NOTE = ("The seven fillers called exactly as refill() calls them (whole cache asked for, cache size 4 via hook "
        "ECHSE_VERIF_CCH) with CBMC's array-bounds and pointer checks on the real cache buffer: (1) dense shapes whose "
        "time-of-day product does not divide the cache size (overshoot of the tgt[res++] writes), (2) the maximal "
        "BYHOUR / BYSECOND lists the parser accepts (make_enum buffers), (3) rule classes with an empty recurrence set: the "
        "filler must return 0 within the unwinding bound; a counterexample to an unwinding assertion is replayed natively "
        "under a time limit and reported only if the real filler is still spinning.")
ASSUMPTIONS = ["cache size 4 instead of 64 (hook ECHSE_VERIF_CCH); the overshoot arithmetic is symbolic in GRP_CCH_OFF",
               "termination obligations start within two years (daily) / two days (hourly and finer) of the end of the supported range 2099",
               "memory safety of the sparse shapes is additionally covered by the bounds checks switched on in every C01 obligation"]
Q = ('quick', 'thorough'); T = ('thorough',)
def s(freq, name, parts, extra, tiers=Q, **kw):
    kw.setdefault('checks', ['--bounds-check', '--pointer-check', '--div-by-zero-check', '--undefined-shift-check'])
    kw.setdefault('termination', True)
    kw.setdefault('hang_s', 10)
    o = _c01.shape(freq, name, parts, extra=list(extra), tiers=tiers, **kw)
    o['src'] = '../C01/h_rrul.c'
    o['outside'] = 'the real cache size 64 for the functional part; lists longer than stated'
    return o
OBLIGATIONS = [
    # (1) overshoot: product of time-of-day lists = 4 (or 3) per candidate day, cache = 4
    s(1, 'overshoot_h2m2', {'NH': 2, 'NM': 2}, ['SAFETY'], cand=1, tiers=T),
    s(2, 'overshoot_h2m2', {'NH': 2, 'NM': 2}, ['SAFETY'], cand=1, tiers=T),
    s(3, 'overshoot_h3', {'NH': 3}, ['SAFETY'], cand=1, tiers=T),
    s(4, 'overshoot_h2m2', {'NH': 2, 'NM': 2}, ['SAFETY'], cand=1, mem_gb=4),
    s(5, 'overshoot_m3', {'NM': 3}, ['SAFETY'], cand=1, tiers=T),
    s(6, 'overshoot_s3', {'NS': 3}, ['SAFETY'], cand=1, tiers=T),
    # (2) the largest lists the parser lets through
    s(4, 'allhours_0_24', {}, ['SAFETY', 'ALLHOURS'], cand=1, uw={'make_enum.*': 64, 'harness.*': 64, 'rrul_fill_dly.6': 31, 'rrul_fill_dly.8': 7}, mem_gb=10, timeout=850),
    s(4, 'allseconds_0_60', {}, ['SAFETY', 'ALLSECONDS'], cand=1, uw={'make_enum.*': 64, 'harness.*': 64, 'rrul_fill_dly.6': 67, 'rrul_fill_dly.8': 7}, mem_gb=30, timeout=3000, tiers=T),
    # (3) empty recurrence sets
    s(1, 'empty_feb30', {'NMON': 1, 'NDOM': 1}, ['EMPTY=ASSUME(in.mon[0] == 2 && in.dom[0] >= 30)'], cand=1, uw={'rrul_fill_yly.*': 68}, timeout=1500, tiers=T),
    s(2, 'empty_feb30', {'NMON': 1, 'NDOM': 1}, ['EMPTY=ASSUME(in.mon[0] == 2 && in.dom[0] >= 30)'], cand=1, uw={'rrul_fill_mly.*': 68}, timeout=1500, tiers=T),
    # BYMONTH months that INTERVAL can never reach from DTSTART's month: the month-skipping loop must not be entered
    s(2, 'empty_incongruent_bymonth', {'NMON': 1}, ['EMPTY=ASSUME((in.mon[0] - in.m) % 3 != 0)'], inter=3, cand=1, uw={'rrul_fill_mly.*': 3}, mem_gb=6, timeout=800),
    s(2, 'empty_incongruent_bymonth', {'NMON': 1}, ['EMPTY=ASSUME((in.mon[0] - in.m) % 6 != 0)'], inter=6, cand=1, uw={'rrul_fill_mly.*': 3}, mem_gb=6, timeout=800),
    s(4, 'empty_feb30', {'NMON': 1, 'NDOM': 1}, ['EMPTY=ASSUME(in.mon[0] == 2 && in.dom[0] >= 30)', 'YMIN=2099', 'DMIN=1'], cand=1, uw={'rrul_fill_dly.*': 40}, timeout=800, mem_gb=6),
    s(4, 'empty_feb30_from2098', {'NMON': 1, 'NDOM': 1}, ['EMPTY=ASSUME(in.mon[0] == 2 && in.dom[0] >= 30)', 'YMIN=2098'], cand=1, uw={'rrul_fill_dly.*': 740}, timeout=3400, mem_gb=24, tiers=T),
    s(5, 'empty_oddhour', {'NH': 1}, ['EMPTY=ASSUME((in.bh[0] & 1) != (in.H & 1))', 'YMIN=2099', 'DMIN=30'], inter=2, cand=1, uw={'rrul_fill_Hly.*': 40}, mem_gb=16, timeout=3000, tiers=T),
    s(5, 'empty_oddhour_lastday', {'NH': 1}, ['EMPTY=ASSUME((in.bh[0] & 1) != (in.H & 1))', 'YMIN=2099', 'DMIN=31'], inter=2, cand=1, uw={'rrul_fill_Hly.*': 16}, mem_gb=4, timeout=800),
    s(6, 'empty_oddminute', {'NM': 1}, ['EMPTY=ASSUME((in.bm[0] & 1) != (in.M & 1))', 'YMIN=2099', 'DMIN=31', 'HMIN'], inter=2, cand=1, uw={'rrul_fill_Mly.*': 70}, tiers=T),
]
