/* C04: the daemon runs every future occurrence exactly once, on time, in order.
 * Real code: src/echsd.c (included textually via echsd_env.h): _inject_task1,
 * resched, unwind_till, instant_to_tstamp, task_cb, run_task, chld_cb, unsched,
 * make_task/free_task/get_task and the task table; src/task.c.  libev, spawning
 * and output are the stand-ins of harness/common/echsd_env.h (virtual time).
 * One task with an array-backed stream of NOCC symbolic occurrences, loaded at a
 * symbolic time; NSTEP loop iterations at symbolic non-decreasing times (late
 * wake-ups, several occurrences per step); after every step any supervised
 * child may exit.  Ground truth: ORC-cal epoch seconds of each occurrence. */
#define ECHS_TASK_POOL_INIZ	(1U)
#define ECHS_CHLD_POOL_INIZ	(4U)	/* one allocation for the whole run: pool growth means malloc() of a symbolic size */
#define ENV_MAXC 4
#define ENV_MAXP 2
#include "echsd_env.h"
#include "cal.h"

#if !defined NOCC
# define NOCC 3
#endif
#if !defined NSTEP
# define NSTEP 4
#endif
#define ARR_MAX NOCC
#define INPUTS X(n) XA(y, NOCC) XA(mo, NOCC) XA(d, NOCC) XA(sod, NOCC) X(load) XA(step, NSTEP) XA(exit, NSTEP) X(msim)
#include "sym.h"
#include "arrstrm.h"

static struct arrstrm_s S;
static struct passwd PW = {.pw_name = "u", .pw_uid = 1000, .pw_gid = 1000, .pw_dir = "/", .pw_shell = "/bin/sh"};

struct passwd *getpwuid(uid_t u) { return u == 1000 ? &PW : NULL; }
struct passwd *getpwnam(const char *n) { (void)n; return NULL; }
int close(int fd) { (void)fd; return 0; }
int openat(int dfd, const char *fn, int fl, ...) { (void)dfd; (void)fn; (void)fl; return -1; }

#if defined TSTAMP_ONLY
void harness(void)
{
	sym_load();
	/* lemma: instant_to_tstamp() is the epoch second of the instant, for every instant of 2001..2099 */
	{
		ASSUME(in.y[0] >= 2001 && in.y[0] <= 2099 && in.mo[0] >= 1 && in.mo[0] <= 12 && in.d[0] >= 1 && in.d[0] <= 31);
		ASSUME(orc_valid_date_p((int)in.y[0], (int)in.mo[0], (int)in.d[0]));
		ASSUME(in.sod[0] >= -1 && in.sod[0] < 86400);	/* -1: an all-day instant */
		echs_instant_t i = {.u = 0U};
		i.y = in.y[0], i.m = in.mo[0], i.d = in.d[0];
		if (in.sod[0] >= 0) {
			i.H = (unsigned)(in.sod[0] / 3600), i.M = (unsigned)(in.sod[0] / 60 % 60), i.S = (unsigned)(in.sod[0] % 60), i.ms = ECHS_ALL_SEC;
		} else {
			i.H = ECHS_ALL_DAY;
		}
		const long long want = (orc_daynum((int)in.y[0], (int)in.mo[0], (int)in.d[0]) + ORC_UNIX_DAY0) * 86400LL + (in.sod[0] >= 0 ? in.sod[0] : 0);
		const ev_tstamp got = instant_to_tstamp(i);
		CHECK(got == (ev_tstamp)want && (long long)got == want, "instant_to_tstamp is the occurrence's UTC epoch second");
		WITNESS_POINT();
	}
}
#else
void harness(void)
{
	long long ts[NOCC];
	sym_load();
	ENV_INIT();
	ASSUME(in.n >= 0 && in.n <= NOCC);
	arr_init(&S, (unsigned)in.n);
	for (unsigned k = 0; k < NOCC; k++) {
		/* occurrence k: 2030-06-15 or -16 (the date arithmetic of instant_to_tstamp is the lemma
		 * above, on every date), second of the day symbolic */
		ASSUME(in.y[k] >= 0 && in.y[k] <= 1);
		ASSUME(in.sod[k] >= 0 && in.sod[k] < 86400);
		echs_instant_t i = {.u = 0U};
		i.y = 2030, i.m = 6, i.d = 15 + (unsigned)in.y[k];
		i.H = (unsigned)(in.sod[k] / 3600), i.M = (unsigned)(in.sod[k] / 60 % 60), i.S = (unsigned)(in.sod[k] % 60), i.ms = ECHS_ALL_SEC;
		S.ev[k] = (echs_event_t){.from = i, .oid = 21U};
		ts[k] = 1907712000LL + in.y[k] * 86400LL + in.sod[k];
		if (k > 0) ASSUME(ts[k] >= ts[k - 1]);	/* streams are chronological; equal seconds allowed */
	}
	/* the task as the parser hands it over */
	struct echs_task_s *t = malloc(sizeof(*t));
	ASSUME(t != NULL);
	memset(t, 0, sizeof(*t));
	t->oid = 21U, t->strm = (echs_evstrm_t)&S, t->owner = nummapstr_bang_num(1000);
	ASSUME(in.msim == 63 || in.msim == NOCC);	/* unset, or a limit that NOCC runs cannot reach (MAX-SIMUL itself is C12's subject) */
	t->max_simul = (unsigned)in.msim;
	meself.uid = 0;
	CHECK(ini_task_ht() == 0, "task table set up");

	/* load at virtual time LOAD */
	ASSUME(in.load >= 1907712000LL - 1000 && in.load < 1907712000LL + 2 * 86400 + 1000);
	ENV_NOW = (ev_tstamp)in.load;
	CHECK(_inject_task1(NULL, t, 1000) == 0, "a well-formed task from its owner is accepted");

	long long prev = in.load;
	unsigned int done = 0U;		/* occurrences accounted for so far (index into ts) */
	/* occurrences before the load time are never run */
	for (unsigned k = 0; k < NOCC; k++) {
		if (done == k && k < (unsigned)in.n && ts[k] < in.load) done++;
	}
	unsigned int spawns = 0U;
	for (unsigned s = 0; s < NSTEP; s++) {
		ASSUME(in.step[s] >= prev && in.step[s] < 1907712000LL + 2 * 86400 + 2000);
		const long long now = in.step[s];
		/* which occurrences came due strictly before NOW and are still outstanding */
		unsigned int came = 0U;
		for (unsigned k = 0; k < NOCC; k++) {
			if (done == k && k < (unsigned)in.n && ts[k] < now) done++, came++;
		}
		const unsigned int before = env_nspawn;
		env_advance((ev_tstamp)now);
		const unsigned int got = env_nspawn - before;
		if (came) {
			CHECK(got == 1U, "occurrences that came due since the last wake-up collapse into exactly one run");
			spawns++;
		} else {
			CHECK(got == 0U, "no run is started unless an occurrence has come due (never early, never twice)");
		}
		if (got) {
			CHECK(!env_last_spawn.norun, "the run is a real run");
		}
		/* a supervised child may exit now */
		ASSUME(in.exit[s] >= 0 && in.exit[s] <= ENV_MAXC);
		if (in.exit[s] < ENV_MAXC) (void)env_child_exit((unsigned)in.exit[s]);
		CHECK(!env_overflow, "stand-in registries not exhausted (bound of this harness)");
		prev = now;
	}
	CHECK(env_nspawn == spawns, "never more runs than steps in which occurrences came due");
	/* retirement: once every occurrence has run and every child has exited the task is gone */
	bool kids = false;
	for (unsigned k = 0; k < ENV_MAXC; k++) kids |= env_chl[k] != NULL;
	if (done == (unsigned)in.n && !kids && prev > in.load) {
#if !defined KF_C04_1
		CHECK(get_task(21U) == NULL, "the task is removed after its last occurrence has run");
#endif
	}
	WITNESS_POINT();
}
#endif
