"""C04 -- the daemon runs every future occurrence exactly once, on time, in order."""
NOTE = ("_inject_task1 -> resched/unwind_till/instant_to_tstamp -> task_cb/run_task -> chld_cb/unsched executed symbolically "
        "for one task with NOCC symbolic occurrences (any second of two consecutive days, equal seconds allowed; the date arithmetic of instant_to_tstamp is a separate obligation over all of 2001..2099), a symbolic load time and NSTEP "
        "loop iterations at symbolic non-decreasing virtual times with optional child exits. Expected behaviour is "
        "computed from the ORC-cal epoch second of every occurrence: a step starts exactly one run iff at least one "
        "occurrence with load <= t < now is outstanding.")
ASSUMPTIONS = ["libev replaced by the virtual-time stand-in of harness/common/echsd_env.h (reschedule-then-callback order of libev 4's periodics_reify)",
               "posix_spawn/pipe/openat/getpwuid stand-ins; output captured not formatted",
               "one task; the stream is an array-backed stand-in honouring the evstrm contract"]
FP = {'ev_periodic_start.function_pointer_call.1': ['resched'], 'env_advance.function_pointer_call.1': ['resched'],
      'env_advance.function_pointer_call.2': ['task_cb', 'unsched'], 'env_child_exit.function_pointer_call.1': ['chld_cb'],
      'echs_evstrm_pop.function_pointer_call.1': ['arr_next'], 'echs_evstrm_next.function_pointer_call.1': ['arr_next'],
      'free_echs_evstrm.function_pointer_call.1': ['arr_free']}
def ob(name, nocc, nstep, **kw):
    o = dict(name=name, src='h_sched.c', defs=['NOCC=%d' % nocc, 'NSTEP=%d' % nstep, 'ORC_FAST'], units=['src/task.c'], incl=['src/echsd.c'],
             replay_units='all', replay_extra_units=['src/logger.c'], unwind=max(nocc, nstep, 4) + 2, unwindset={'put_task_slot.*': 18, 'get_task_slot.*': 18, 'make_task_pool.*': 3, 'make_chld_pool.*': 5, 'memset.*': 4, 'strlen.*': 10, 'strdup.*': 10, 'strcpy.*': 10, 'memcpy.*': 10},
             solver='kissat', slice_formula=True, timeout=800, mem_gb=6, object_bits=12, checks=['--bounds-check', '--pointer-check'], restrict_fp=FP, replace_calls={'add_chkpnt': 'env_add_chkpnt', 'make_chld': 'env_make_chld', 'free_chld': 'env_free_chld'}, excludes=['C04-1'],
             allow_nobody=['snprintf', 'lseek', 'echs_log', 'echs_errlog', 'obint_name', 'dt_strf', 'free_strlst', 'strdup'],
             enc=['_inject_task1', 'resched', 'unwind_till', 'instant_to_tstamp', 'task_cb', 'run_task', 'chld_cb', 'unsched', 'make_task', 'free_task', 'get_task', 'put_task_slot'],
             sym='occurrence instants, load time, step times, which child exits when, limit unset/2',
             bounds='%d occurrences, %d loop iterations' % (nocc, nstep), outside='several tasks (C11/C12), the real libev, real processes',
             stubs=['make_chld/free_chld replaced by a separate-objects allocator (the malloc-threaded pool costs > 40 GB of formula)', 'add_chkpnt() cut (goto-instrument --replace-calls): checkpoint bookkeeping is C06', 'libev/spawn/fd/passwd stand-ins (harness/common/echsd_env.h)', 'array-backed stream', 'hook pool sizes 2/4'])
    o.update(kw)
    return o
OBLIGATIONS = [
    ob('tstamp_all_instants', 1, 1, defs=['NOCC=1', 'NSTEP=1', 'ORC_FAST', 'TSTAMP_ONLY'], solver='kissat', timeout=900, mem_gb=8, restrict_fp={}, replace_calls={},
       enc=['instant_to_tstamp'], sym='the instant (date, second of day or all-day)', bounds='every instant of 2001..2099', outside='nothing within the supported range',
       stubs=['ORC-cal oracle (validated against timegm by setup)']),
    ob('sched_occ2_step2', 2, 2),
    ob('sched_occ2_step3', 2, 3, timeout=800),
    ob('sched_occ3_step4', 3, 4, tiers=('thorough',), timeout=3400, mem_gb=24),
]
