/* C13 (descriptor plan): the executor routes the job's output as configured.
 * Real code: src/echsx.c (included textually): prep_task() -- which descriptor
 * becomes the child's stdout/stderr, which pipes/tee files/mail file are set up
 * for the 20 documented combinations of {X-ECHS-OFILE, X-ECHS-EFILE (same file
 * or another), MAIL-OUT, MAIL-ERR} -- read together with how run_task()/data_cb()
 * use the result (a pipe's reader copies to mfd and, if set, to the tee file).
 * open/mkstemp/pipe are stand-ins that tag every descriptor with the object it
 * refers to; the harness propagates "bytes written to fd 1 / fd 2" through the
 * plan and compares the set of sinks with what the README table prescribes. */
#define main echsx_main
#include "echsx.c"
#undef main
#if defined VERIF_CBMC
/* logging gets an empty body (the native replay links the real logger.c) */
static void env_log(int prio, const char *fmt, ...) { (void)prio; (void)fmt; }
void(*echs_log)(int prio, const char *fmt, ...) = env_log;
void echs_errlog(int prio, const char *fmt, ...) { (void)prio; (void)fmt; }
#endif

#define INPUTS X(out) X(err) X(mout) X(merr) X(fail) X(wd) X(inf)
#include "sym.h"

enum { S_NONE = 0, S_NULL, S_A, S_B, S_TMP, S_OPIPE_W, S_OPIPE_R, S_EPIPE_W, S_EPIPE_R, S_IN, S_INFILE };
static const char *chdir_arg;
static int nchdir;
static int tag[64];
static int nfd = 8;
static int npipe, ntmp, nopen_a, nopen_b;
static int fail_at = -1, ncall;

static int newfd(int t) { if (nfd >= 63) return -1; tag[nfd] = t; return nfd++; }
static int failing(void) { return ncall++ == fail_at; }

int open(const char *fn, int fl, ...)
{
	if (failing()) return -1;
	if (fn[0] == '/') return newfd((fl & O_ACCMODE) == O_RDONLY ? S_IN : S_NULL);
	if (fn[0] == 'I') return newfd((fl & O_ACCMODE) == O_RDONLY ? S_INFILE : S_NONE);
	if (fn[0] == 'A') { nopen_a++; return newfd(S_A); }
	nopen_b++;
	return newfd(S_B);
}
int mkstemp(char *tmpl) { (void)tmpl; if (failing()) return -1; ntmp++; return newfd(S_TMP); }
int pipe(int fd[2])
{
	if (failing()) return -1;
	fd[0] = newfd(npipe ? S_EPIPE_R : S_OPIPE_R);
	fd[1] = newfd(npipe ? S_EPIPE_W : S_OPIPE_W);
	npipe++;
	return 0;
}
int close(int fd) { (void)fd; return 0; }
int chdir(const char *p) { chdir_arg = p; nchdir++; return 0; }
int fcntl(int fd, int cmd, ...) { (void)fd; (void)cmd; return 0; }

static int tg(int fd) { return fd >= 0 && fd < 64 ? tag[fd] : S_NONE; }

void harness(void)
{
	static struct echs_task_s T;
	struct echsx_task_s xt = {&T};
	static const char A[] = "A", B[] = "B", A2[] = "A";
	sym_load();
	ASSUME(in.out >= 0 && in.out <= 1 && in.err >= 0 && in.err <= 3 && (in.mout == 0 || in.mout == 1) && (in.merr == 0 || in.merr == 1));
	/* out: unset | file A;  err: unset | file A (same name, same string) | file B | file A via an equal but distinct string */
	T.out = in.out ? A : NULL;
	T.err = in.err == 0 ? NULL : in.err == 1 ? A : in.err == 2 ? B : A2;
	T.mailout = (unsigned)in.mout, T.mailerr = (unsigned)in.merr;
	ASSUME((in.wd == 0 || in.wd == 1) && (in.inf == 0 || in.inf == 1));
	T.run_as.wd = in.wd ? "W" : NULL;
	T.in = in.inf ? "I" : NULL;
	ASSUME(in.fail == -1);	/* no failing system call */
	fail_at = (int)in.fail;

	const int rc = prep_task(&xt);
#if defined CWDIN
	{
		CHECK(rc == 0, "the plan is set up");
		CHECK(in.wd ? (nchdir == 1 && chdir_arg == T.run_as.wd) : nchdir == 0, "the job runs in the requested working directory (and only there)");
		CHECK(tg(xt.ifd) == (in.inf ? S_INFILE : S_IN), "stdin is the requested input file, else /dev/null, opened read-only");
		WITNESS_POINT();
		return;
	}
#endif
	CHECK(rc == 0, "the plan is set up when no system call fails");
	const bool want_of = T.out != NULL, want_ef = T.err != NULL;
	const int sink_of = S_A, sink_ef = in.err == 2 ? S_B : S_A;

	/* where do bytes written to the child's fd 1 / fd 2 end up?  a pipe's reader (data_cb)
	 * copies to mfd and, if >= 0, to the tee descriptor */
	int o1 = S_NONE, o2 = S_NONE, e1 = S_NONE, e2 = S_NONE;
	if (tg(xt.ofd) == S_OPIPE_W) {
		CHECK(tg(xt.opip) == S_OPIPE_R, "the parent keeps the read end of the stdout pipe");
		o1 = tg(xt.mfd), o2 = tg(xt.teeo);
	} else {
		o1 = tg(xt.ofd);
	}
	if (tg(xt.efd) == S_EPIPE_W) {
		CHECK(tg(xt.epip) == S_EPIPE_R, "the parent keeps the read end of the stderr pipe");
		e1 = tg(xt.mfd), e2 = tg(xt.teee);
	} else {
		e1 = tg(xt.efd);
	}
	/* the mail body is the file named mfn */
	int mail = S_NONE;
	if (xt.mfn != NULL) {
		mail = xt.mfn[0] == '/' ? S_TMP : xt.mfn[0] == 'A' ? S_A : S_B;
	}
	CHECK(tg(xt.ifd) == (in.inf ? S_INFILE : S_IN), "stdin is the input file or /dev/null opened for reading");
	CHECK(o1 != S_NONE && e1 != S_NONE, "stdout and stderr of the job lead somewhere");
	CHECK(o1 != o2 && e1 != e2, "nothing is delivered twice to the same object");
#define REACH(s1, s2, x)	((s1) == (x) || (s2) == (x))
	/* output files */
	CHECK(REACH(o1, o2, sink_of) == want_of || (!want_of && want_ef && sink_ef == sink_of), "stdout reaches X-ECHS-OFILE iff one is given");
	CHECK(REACH(e1, e2, sink_ef) == want_ef || (!want_ef && want_of && sink_ef == sink_of), "stderr reaches X-ECHS-EFILE iff one is given");
	if (!want_of) CHECK(!REACH(o1, o2, S_A) || (want_ef && sink_ef == S_A && T.mailout), "stdout reaches no file that was not asked for");
	/* mail */
	if (T.mailout || T.mailerr) {
		CHECK(mail != S_NONE, "a mail body exists when mail is asked for");
		CHECK(REACH(o1, o2, mail) == (bool)T.mailout, "stdout is in the mail body iff MAIL-OUT");
		CHECK(REACH(e1, e2, mail) == (bool)T.mailerr, "stderr is in the mail body iff MAIL-ERR");
		CHECK((xt.mrm == 1U) == (mail == S_TMP), "exactly the temporary mail file is marked for removal");
	} else {
		CHECK(!REACH(o1, o2, S_TMP) && !REACH(e1, e2, S_TMP) && ntmp == 0, "no temporary file without mail");
	}
	/* discard */
	if (!want_of && !T.mailout) CHECK(o1 == S_NULL && o2 == S_NONE, "unwanted stdout goes to /dev/null");
	if (!want_ef && !T.mailerr) CHECK(e1 == S_NULL && e2 == S_NONE, "unwanted stderr goes to /dev/null");
	/* one file is never opened (and truncated) twice */
	CHECK(nopen_a <= 1 && nopen_b <= 1, "an output file is opened (truncated) once");
#if !defined CWDIN
	WITNESS_POINT();
#endif
}
