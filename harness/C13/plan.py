"""C13 -- the executor routes the job's output as configured: the descriptor plan."""
NOTE = ("prep_task() of src/echsx.c executed symbolically over the whole configuration space {OFILE unset/file, EFILE "
        "unset/same file (same or equal string)/other file, MAIL-OUT, MAIL-ERR} = 32 configurations incl. the 20 documented "
        "rows; open/mkstemp/pipe tag every descriptor with its object; bytes written to the job's fd 1 and fd 2 are propagated "
        "through the plan the way run_task()/data_cb() use it and the reached sinks are compared with the README table.")
ASSUMPTIONS = ["the pump copies a pipe's data to mfd and, if set, to the tee descriptor (read off run_task()/data_cb(), not executed)",
               "real process execution, pipe capacity, partial splice/sendfile, exit status, signals, sendmail and the journal are outside: "
               "they need a running child and kernel, which a solver cannot hold"]
OBLIGATIONS = [
    dict(name='descriptor_plan_32', src='h_plan.c', defs=[], units=[], incl=['src/echsx.c'], replay_units='all', replay_extra_units=['src/logger.c'], replay_libs=['-lev'],
         unwind=6, unwindset={'strcmp.*': 4, 'sym_load.*': 3}, solver='minisat', slice_formula=True, timeout=900, mem_gb=12, object_bits=11, checks=['--bounds-check', '--pointer-check'],
         allow_nobody=['snprintf', 'strerror', '__errno_location'],
         enc=['prep_task', 'fd_cloexec'], sym='OFILE / EFILE (same, equal, other) / MAIL-OUT / MAIL-ERR', bounds='all 32 configurations, no failing system call',
         outside='failing open/mkstemp/pipe; the pump under partial I/O; the child process', stubs=['open/mkstemp/pipe/close/chdir/fcntl stand-ins tagging descriptors with their object']),
    dict(name='cwd_and_stdin', src='h_plan.c', defs=['CWDIN'], units=[], incl=['src/echsx.c'], replay_units='all', replay_extra_units=['src/logger.c'], replay_libs=['-lev'],
         unwind=6, unwindset={'strcmp.*': 4, 'sym_load.*': 3}, solver='minisat', slice_formula=True, timeout=900, mem_gb=12, object_bits=11, checks=['--bounds-check', '--pointer-check'],
         allow_nobody=['snprintf', 'strerror', '__errno_location'],
         enc=['prep_task'], sym='working directory set/unset, stdin file set/unset, and the output configuration', bounds='all combinations',
         outside='umask and the shell (set in echsx()/run_task() around the spawn)', stubs=['open/chdir stand-ins recording their arguments']),
    dict(name='pump_tee_ev3', src='h_pump.c', defs=['NEV=3'], units=[], incl=['src/echsx.c'], replay_units='all', replay_extra_units=['src/logger.c'], replay_libs=['-lev'],
         unwind=5, unwindset={'data_cb.*': 6, 'sym_load.*': 8}, solver='cadical', timeout=900, mem_gb=12, object_bits=11, checks=['--bounds-check', '--pointer-check'],
         allow_nobody=['snprintf', 'strerror', '__errno_location'],
         enc=['data_cb'], sym='which watcher fires when, how much each splice moves, how much each sendfile call transfers, which streams have a tee file',
         bounds='3 callback invocations over the stdout and stderr watchers, <= 1000 bytes per splice, up to 3 partial sendfile transfers',
         outside='real pipes and files; the non-splice fallback path (this build has HAVE_SPLICE and HAVE_SENDFILE)', stubs=['splice/lseek/sendfile/close/ev_io_stop stand-ins modelling the mail file as a segment log']),
    dict(name='pump_tee_ev4', src='h_pump.c', defs=['NEV=4'], units=[], incl=['src/echsx.c'], replay_units='all', replay_extra_units=['src/logger.c'], replay_libs=['-lev'],
         unwind=6, unwindset={'data_cb.*': 7, 'sym_load.*': 10}, solver='cadical', timeout=1800, mem_gb=12, object_bits=11, checks=['--bounds-check', '--pointer-check'], tiers=('thorough',),
         allow_nobody=['snprintf', 'strerror', '__errno_location'],
         enc=['data_cb'], sym='as pump_tee_ev3', bounds='4 callback invocations', outside='as pump_tee_ev3', stubs=['as pump_tee_ev3']),
]
