/* C13 (data pump): what the job writes to stdout / stderr reaches the tee file of THAT stream,
 * byte for byte and in order, while everything also lands in the mail file.
 * Real code: src/echsx.c (included textually): data_cb(), the libev io callback run_task()
 * registers per output pipe: splice(pipe -> mail file), then sendfile(mail file -> tee file) of
 * the range just spliced.
 * Kernel stand-in: the mail file is a length plus a log of appended segments (which stream,
 * where, how long); splice() appends an arbitrary amount 1..AVAIL from the pipe it is given (or
 * reports end of file); lseek() reports the end; sendfile() copies an arbitrary part 1..count of
 * what it is asked for and advances the offset (partial transfers).  NEV callback invocations on
 * the two watchers in an arbitrary order. */
#define main echsx_main
#include "echsx.c"
#undef main
#if defined VERIF_CBMC
static void env_log(int prio, const char *fmt, ...) { (void)prio; (void)fmt; }
void(*echs_log)(int prio, const char *fmt, ...) = env_log;
void echs_errlog(int prio, const char *fmt, ...) { (void)prio; (void)fmt; }
#endif

#if !defined NEV
# define NEV 3
#endif
#define INPUTS XA(who, NEV) XA(amt, NEV) XA(part, NEV) X(tee_o) X(tee_e)
#include "sym.h"

enum { FD_OPIPE = 10, FD_EPIPE = 11, FD_MAIL = 20, FD_OTEE = 30, FD_ETEE = 31 };

/* mail file */
static long long mail_len;
static struct { int strm; long long at, len; } seg[NEV];
static unsigned int nseg;
/* what the current callback is expected to copy: the segment it just spliced */
static int cur_strm = -1;
static long long cur_at, cur_len, cur_done;
/* per tee file: bytes received, and whether every byte came from the right place */
static long long tee_got[2];
static int tee_bad;
static unsigned int npart;
static int closed[2];

ssize_t splice(int fdin, loff_t *oi, int fdout, loff_t *oo, size_t len, unsigned int fl)
{
	(void)oi; (void)oo; (void)len; (void)fl;
	const int s = fdin == FD_OPIPE ? 0 : 1;
	CHECK((fdin == FD_OPIPE || fdin == FD_EPIPE) && fdout == FD_MAIL, "a pipe is spliced into the mail file");
	const long long n = in.amt[nseg < NEV ? nseg : 0];
	if (n <= 0 || nseg >= NEV) return 0;	/* end of file on the pipe */
	seg[nseg].strm = s, seg[nseg].at = mail_len, seg[nseg].len = n;
	cur_strm = s, cur_at = mail_len, cur_len = n, cur_done = 0;
	mail_len += n;
	nseg++;
	return (ssize_t)n;
}

off_t lseek(int fd, off_t off, int wh)
{
	CHECK(fd == FD_MAIL && off == 0 && wh == SEEK_CUR, "only the mail file position is asked for");
	return (off_t)mail_len;
}

ssize_t sendfile(int ofd, int ifd, off_t *off, size_t cnt)
{
	const int s = ofd == FD_OTEE ? 0 : 1;
	CHECK(ifd == FD_MAIL && (ofd == FD_OTEE || ofd == FD_ETEE), "the tee file is fed from the mail file");
	/* what the kernel can deliver: up to the end of the file */
	long long can = mail_len - (long long)*off;
	if (can > (long long)cnt) can = (long long)cnt;
	if (can <= 0) return 0;
	long long k = npart < NEV ? in.part[npart < NEV ? npart : 0] : can;
	npart++;
	if (k < 1 || k > can) k = can;	/* a partial transfer of 1..can bytes */
	/* the bytes [*off, *off + k) must be the next bytes of the segment this callback spliced, and belong to this tee's stream */
	if (s != cur_strm || (long long)*off != cur_at + cur_done || cur_done + k > cur_len) tee_bad = 1;
	cur_done += k;
	tee_got[s] += k;
	*off += (off_t)k;
	return (ssize_t)k;
}

int close(int fd) { if (fd == FD_OPIPE) closed[0] = 1; if (fd == FD_EPIPE) closed[1] = 1; return 0; }
void ev_io_stop(struct ev_loop *l, ev_io *w) { (void)l; (void)w; }

void harness(void)
{
	static struct data_s W[2];
	sym_load();
	ASSUME((in.tee_o == 0 || in.tee_o == 1) && (in.tee_e == 0 || in.tee_e == 1));
	W[0].w.fd = FD_OPIPE, W[0].mailfd = FD_MAIL, W[0].filefd = in.tee_o ? FD_OTEE : -1;
	W[1].w.fd = FD_EPIPE, W[1].mailfd = FD_MAIL, W[1].filefd = in.tee_e ? FD_ETEE : -1;
	long long want[2] = {0, 0};
	for (unsigned k = 0; k < NEV; k++) {
		ASSUME((in.who[k] == 0 || in.who[k] == 1) && in.amt[k] >= 0 && in.amt[k] <= 1000);
		const unsigned int before = nseg;
		cur_strm = -1;
		if (!closed[in.who[k]]) {
			data_cb(NULL, &W[in.who[k]].w, EV_READ);
		}
		if (nseg > before) {
			/* this callback moved seg[before] of stream who[k] */
			const int s = (int)in.who[k];
			if (s == 0 ? in.tee_o : in.tee_e) {
				want[s] += seg[before].len;
				CHECK(cur_done == cur_len, "the whole range just spliced is copied to the tee file before the callback returns");
			}
		}
	}
	CHECK(!tee_bad, "the tee file of a stream receives exactly that stream's bytes, in order");
	CHECK(tee_got[0] == want[0] && tee_got[1] == want[1], "each tee file holds as many bytes as its stream wrote");
	WITNESS_POINT();
}
