/* C12: X-ECHS-MAX-SIMUL bounds concurrent runs of a task, and only of that task.
 * Real code: src/echsd.c (included textually via echsd_env.h): task_cb, chld_cb,
 * run_task (incl. its static args[] vector), make_chld/free_chld; the libev,
 * spawn and output stand-ins of harness/common/echsd_env.h.
 * Two tasks A and B with symbolic limits; a symbolic schedule of NEV events:
 *   0/1  an occurrence of A/B falls due (the periodic watcher's callback runs)
 *   2..5 the supervised child in watcher slot k-2 exits
 *   6/7  an unsupervised but really running execution of A/B exits
 * Ground truth kept here: an execution is RUNNING from a spawn without --no-run
 * until its exit event, whether or not the daemon supervises it. */
#define ECHS_TASK_POOL_INIZ	(2U)
#define ECHS_CHLD_POOL_INIZ	(4U)	/* one allocation for the whole run: pool growth means malloc() of a symbolic size */
#define ENV_MAXC 4
#define ENV_MAXP 2
#include "echsd_env.h"

#if !defined NEV
# define NEV 6
#endif
#define INPUTS X(na) X(nb) XA(ev, NEV)
#include "sym.h"

static struct echs_task_s TA, TB;
static struct _task_s WA, WB;

/* children the daemon supervises, by watcher slot: which task, and ground truth */
static int sup_task[ENV_MAXC];	/* 0 none, 1 A, 2 B */
static unsigned int run_sup[3], run_unsup[3];

int close(int fd) { (void)fd; return 0; }
int openat(int dfd, const char *fn, int fl, ...) { (void)dfd; (void)fn; (void)fl; return -1; }

static void due(struct _task_s *w, int which, long long limit)
{
	const unsigned int before = env_nspawn;
	const unsigned int running = run_sup[which] + run_unsup[which];
	/* remember which child slots were free */
	int was[ENV_MAXC];
	unsigned int alive = 0U;
	for (unsigned k = 0; k < ENV_MAXC; k++) was[k] = env_chl[k] != NULL, alive += env_chl[k] != NULL;
	/* bound of the stand-ins: at most ENV_MAXC supervised executions are alive at once (the
	 * separate-objects child allocator and the watcher registry hold that many) */
	ASSUME(alive < ENV_MAXC);
	task_cb(NULL, &w->w, 0);
	CHECK(env_nspawn == before + 1U, "every due occurrence hands exactly one request to the executor");
	if (env_nspawn == before + 1U) {
		const int norun = env_last_spawn.norun;
		if (limit >= 1 && running >= (unsigned long long)limit) {
			CHECK(norun, "an occurrence falling due while N executions run is reported as not run");
		} else {
			CHECK(!norun, "an occurrence falling due below the limit is really run");
		}
		if (!norun) {
			/* supervised iff a new child watcher appeared */
			int sup = 0;
			for (unsigned k = 0; k < ENV_MAXC; k++) {
				if (!was[k] && env_chl[k] != NULL) {
					sup_task[k] = which;
					sup = 1;
				}
			}
			if (sup) run_sup[which]++;
			else run_unsup[which]++;
		}
	}
}

void harness(void)
{
	sym_load();
	ENV_INIT();
	/* N in 1..62, or 63 = unset = unlimited (what make_task() leaves in the field) */
	ASSUME(in.na >= 1 && in.na <= 63 && in.nb >= 1 && in.nb <= 63);
#if defined NMAX
	ASSUME(in.na <= NMAX || in.na == 63);
	ASSUME(in.nb <= NMAX || in.nb == 63);
#endif
	TA.oid = 11U, TA.max_simul = (unsigned)in.na, TA.owner = nummapstr_bang_num(1000);
	TB.oid = 12U, TB.max_simul = (unsigned)in.nb, TB.owner = nummapstr_bang_num(1000);
	WA.t = &TA, WB.t = &TB;
	WA.w.reschedule_cb = resched, WB.w.reschedule_cb = resched;
	WA.dflt_cred.u = 1000, WB.dflt_cred.u = 1000;
	const long long la = in.na == 63 ? 0 : in.na, lb = in.nb == 63 ? 0 : in.nb;

	for (unsigned i = 0; i < NEV; i++) {
		const long long e = in.ev[i];
		ASSUME(e >= 0 && e <= 7);
#if defined ONETASK
		/* single-task variant: only task A's events */
		ASSUME(e == 0 || (e >= 2 && e <= 5) || e == 6);
#endif
		/* one call site per kind of event keeps the formula small: the task / the
		 * child slot is selected symbolically */
		const int which = (e == 0 || e == 6) ? 1 : 2;
		if (e <= 1) {
			due(e == 0 ? &WA : &WB, e == 0 ? 1 : 2, e == 0 ? la : lb);
		} else if (e <= 5) {
			const unsigned k = (unsigned)e - 2U;
			const int wk = env_chl[k] != NULL ? sup_task[k] : 0;
			if (env_child_exit(k) && wk) {
				run_sup[wk]--;
			}
		} else {
			if (run_unsup[which]) run_unsup[which]--;
		}
		CHECK(!env_overflow, "watcher registry of the stand-in not exhausted (bound of this harness)");
		CHECK(la == 0 || run_sup[1] + run_unsup[1] <= (unsigned long long)la, "never more than N executions of task A at the same time");
		CHECK(lb == 0 || run_sup[2] + run_unsup[2] <= (unsigned long long)lb, "never more than N executions of task B at the same time");
		CHECK(WA.nsim == run_sup[1] && WB.nsim == run_sup[2], "the daemon's count of running executions returns to the truth");
	}
	WITNESS_POINT();
}
