"""C12 -- X-ECHS-MAX-SIMUL bounds concurrent runs of a task, and only of that task."""
NOTE = ("task_cb/chld_cb/run_task of src/echsd.c executed symbolically for two tasks with symbolic limits under a symbolic "
        "schedule of timer expiries and child exits; the harness keeps the ground truth of really running executions "
        "(spawned without --no-run, not yet exited) independently of what the daemon supervises.")
ASSUMPTIONS = ["libev, posix_spawn, pipe, openat and the buffered writer replaced by the stand-ins of harness/common/echsd_env.h",
               "limits N <= NMAX (or unset) so that NEV events can reach them; the comparison logic is symbolic in N"]
FP = {'ev_periodic_start.function_pointer_call.1': ['resched'], 'env_advance.function_pointer_call.1': ['resched'],
      'env_advance.function_pointer_call.2': ['task_cb', 'unsched'], 'env_child_exit.function_pointer_call.1': ['chld_cb']}
def ob(name, nev, nmax, **kw):
    o = dict(name=name, src='h_simul.c', defs=['NEV=%d' % nev, 'NMAX=%d' % nmax], units=[], incl=['src/echsd.c'], replay_units='all', replay_extra_units=['src/logger.c'],
             unwind=max(nev, 5) + 1, solver='minisat', slice_formula=True, timeout=900, mem_gb=12, object_bits=12, checks=['--bounds-check', '--pointer-check'],
             restrict_fp=FP, replace_calls={'add_chkpnt': 'env_add_chkpnt', 'make_chld': 'env_make_chld', 'free_chld': 'env_free_chld'}, allow_nobody=['snprintf', 'lseek', 'echs_log', 'echs_errlog', 'obint_name', 'dt_strf'],
             enc=['task_cb', 'chld_cb', 'run_task', 'vtodoify', 'make_chld', 'free_chld', 'unsched'],
             sym='both limits and the schedule of %d events' % nev, bounds='2 tasks, %d events, limits 1..%d or unset' % (nev, nmax),
             outside='longer schedules; more than 4 supervised executions alive at once (capacity of the stand-ins, assumed); the real libev; real processes',
             stubs=['make_chld/free_chld replaced by a separate-objects allocator (the malloc-threaded pool costs > 40 GB of formula)', 'add_chkpnt() cut (goto-instrument --replace-calls): checkpoint bookkeeping is C06', 'libev/spawn/fd stand-ins (harness/common/echsd_env.h)', 'fdprnt.h pre-empted by capturing writers', 'hook pool sizes 2/4'])
    o.update(kw)
    return o
OBLIGATIONS = [
    ob('two_tasks_ev3_n2', 3, 2, bounds='2 tasks, 3 events: one task reaching its limit does not change how the other is started (the static argument vector)'),
    ob('one_task_ev4_n2', 4, 2, defs=['NEV=4', 'NMAX=2', 'ONETASK'], bounds='1 task, 4 events, limits 1..2 or unset'),
    ob('one_task_ev6_n3', 6, 3, defs=['NEV=6', 'NMAX=3', 'ONETASK'], bounds='1 task, 6 events, limits 1..3 or unset', tiers=('thorough',), timeout=3000, mem_gb=30),
    ob('two_tasks_ev5_n2', 5, 2, tiers=('thorough',), timeout=3000, mem_gb=30),
]
