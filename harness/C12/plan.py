"""C12 -- X-ECHS-MAX-SIMUL bounds concurrent runs of a task, and only of that task."""
NOTE = ("task_cb/chld_cb/run_task of src/echsd.c executed symbolically for two tasks with symbolic limits under a symbolic "
        "schedule of timer expiries and child exits; the harness keeps the ground truth of really running executions "
        "(spawned without --no-run, not yet exited) independently of what the daemon supervises.")
ASSUMPTIONS = ["libev, posix_spawn, pipe, openat and the buffered writer replaced by the stand-ins of harness/common/echsd_env.h",
               "limits N <= NMAX (or unset) so that NEV events can reach them; the comparison logic is symbolic in N"]
FP = {'ev_periodic_start.function_pointer_call.1': ['resched'], 'env_advance.function_pointer_call.1': ['resched'],
      'env_advance.function_pointer_call.2': ['task_cb', 'unsched'], 'env_child_exit.function_pointer_call.1': ['chld_cb']}
def ob(name, nev, nmax, **kw):
    o = dict(name=name, src='h_simul.c', defs=['NEV=%d' % nev, 'NMAX=%d' % nmax], units=[], incl=['src/echsd.c'], replay_units='all', replay_extra_units=['src/logger.c'],
             unwind=max(nev, 5) + 1, solver='cadical', timeout=900, mem_gb=12, object_bits=12, checks=['--bounds-check', '--pointer-check'],
             restrict_fp=FP, allow_nobody=['snprintf', 'lseek', 'echs_log', 'echs_errlog', 'obint_name', 'dt_strf'],
             enc=['task_cb', 'chld_cb', 'run_task', 'vtodoify', 'make_chld', 'free_chld', 'unsched'],
             sym='both limits and the schedule of %d events' % nev, bounds='2 tasks, %d events, limits 1..%d or unset' % (nev, nmax),
             outside='longer schedules; the real libev; real processes',
             stubs=['libev/spawn/fd stand-ins (harness/common/echsd_env.h)', 'fdprnt.h pre-empted by capturing writers', 'hook pool sizes 2/4'])
    o.update(kw)
    return o
OBLIGATIONS = [
    ob('simul_ev3_n2', 3, 2),
    ob('simul_ev4_n2', 4, 2, tiers=('thorough',), timeout=3000, mem_gb=30),
    ob('simul_ev7_n3', 7, 3, tiers=('thorough',), timeout=3000, mem_gb=24),
]
