"""C19 -- the BYxxx value containers behave as sets (src/bitint.h, src/bitint.c)."""
NOTE = ("bitint.h inline containers and bitint.c bi383/bi447 executed symbolically; insertion sequence of K "
        "values over the whole documented range, membership query value and iteration with the callers' protocol "
        "for(it=0; (x=next(&it,s)), it;)")
ASSUMPTIONS = ["values inside the documented range of each container (0..30, 0..62, +-31, +-63, +-383, +-447)",
               "insertion sequences of length K as stated per obligation; longer sequences outside the claim"]

def ob(name, t, k, units=(), tiers=('quick', 'thorough'), timeout=300, **kw):
    d = dict(name=name, src='bitint.c', defs=['T_' + t, 'K=%d' % k], units=list(units),
             unwind=k + 2, unwindset={'bui31_next.*': 33, 'bi31_next.*': 34, 'bui63_next.*': 65, 'bi63_next.*': 66,
                                      'bi383_next.*': 34, 'bi447_next.*': 34, 'ass_bi383.*': 14, 'ass_bi447.*': 16,
                                      'bi383_max0.*': 14},
             checks=['--undefined-shift-check', '--bounds-check', '--pointer-check', '--signed-overflow-check'],
             enc=kw.pop('enc'), sym='%d inserted values + query value' % k, bounds='K=%d insertions' % k,
             outside='sequences longer than K', tiers=tiers, timeout=timeout, mem_gb=4)
    d.update(kw)
    return d

OBLIGATIONS = []
for t, enc in (('BUI31', ['ass_bui31', 'bui31_next', 'bui31_has_bit_p']),
               ('BUI63', ['ass_bui63', 'bui63_next']),
               ('BI31', ['ass_bi31', 'bi31_next', 'bi31_has_bit_p']),
               ('BI63', ['ass_bi63', 'bi63_next'])):
    for k in (1, 2, 3):
        slow = t == 'BI63' and k == 3      # measured: 540 s (cadical), 580 s (kissat), > 300 s minisat
        OBLIGATIONS.append(ob('%s_k%d' % (t.lower(), k), t, k, enc=enc,
                              tiers=('thorough',) if slow else ('quick', 'thorough'),
                              timeout=1800 if slow else 300, solver='cadical' if slow else 'minisat'))
    if t in ('BUI31', 'BI31'):
        OBLIGATIONS.append(ob('%s_k4' % t.lower(), t, 4, enc=enc, tiers=('thorough',), timeout=2400, solver='cadical'))
for t, enc in (('BI383', ['ass_bi383', 'bi383_next']), ('BI447', ['ass_bi447', 'bi447_next'])):
    for k in (1, 2, 3):
        OBLIGATIONS.append(ob('%s_k%d' % (t.lower(), k), t, k, units=['src/bitint.c'], enc=enc))
    for k in (1, 2):
        OBLIGATIONS.append(ob('%s_bitset_k%d' % (t.lower(), k), t, k, units=['src/bitint.c'], enc=enc, defs=['T_' + t, 'K=%d' % k, 'BITSET_FORM'],
                              timeout=600 if k == 1 else 2400, mem_gb=8, tiers=('quick', 'thorough') if k == 1 else ('thorough',), bounds='bitset representation holding %d symbolic value(s), extremes of the range included' % k,
                              sym='%d inserted value(s), container in bitset form' % k))
    for k in (13, 15):
        OBLIGATIONS.append(ob('%s_k%d' % (t.lower(), k), t, k, units=['src/bitint.c'], enc=enc,
                              tiers=('thorough',), timeout=1800, mem_gb=12))
