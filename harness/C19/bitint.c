/* C19: the BYxxx value containers behave as sets.
 * Real code: src/bitint.h (inline), src/bitint.c (bi383/bi447).
 * Select the container with -DT_BUI31 | T_BUI63 | T_BI31 | T_BI63 | T_BI383 | T_BI447,
 * the number of insertions with -DK=<n>. */
#if defined HAVE_CONFIG_H
# include "config.h"
#endif
#include <stdbool.h>
#include "bitint.h"

#if !defined K
# define K 3
#endif
#define INPUTS XA(v, K) X(q)
#include "sym.h"

#if defined T_BUI31
# define LO 0
# define HI 30
typedef bituint31_t set_t;
# define EMPTY(s)	((s) = 0U)
# define ASS(s, x)	((s) = ass_bui31((s), (unsigned)(x)))
# define NEXT(it, s)	((long long)bui31_next((it), (s)))
# define HAS(s, x)	bui31_has_bit_p((s), (unsigned)(x))
# define HAVE_HAS
#elif defined T_BUI63
# define LO 0
# define HI 62
typedef bituint63_t set_t;
# define EMPTY(s)	((s) = 0U)
# define ASS(s, x)	((s) = ass_bui63((s), (unsigned)(x)))
# define NEXT(it, s)	((long long)bui63_next((it), (s)))
#elif defined T_BI31
# define LO -31
# define HI 31
typedef bitint31_t set_t;
# define EMPTY(s)	((s) = (bitint31_t){0U, 0})
# define ASS(s, x)	((s) = ass_bi31((s), (int)(x)))
# define NEXT(it, s)	((long long)bi31_next((it), (s)))
# define HAS(s, x)	bi31_has_bit_p((s), (int)(x))
# define HAVE_HAS
#elif defined T_BI63
# define LO -63
# define HI 63
typedef bitint63_t set_t;
# define EMPTY(s)	((s) = (bitint63_t){0U, 0})
# define ASS(s, x)	((s) = ass_bi63((s), (int)(x)))
# define NEXT(it, s)	((long long)bi63_next((it), (s)))
#elif defined T_BI383
# define LO -383
# define HI 383
typedef bitint383_t set_t;
# define EMPTY(s)	((s) = (bitint383_t){{0U}, {0}})
# define ASS(s, x)	ass_bi383(&(s), (int)(x))
# define NEXT(it, s)	((long long)bi383_next((it), &(s)))
#elif defined T_BI447
# define LO -447
# define HI 447
typedef bitint447_t set_t;
# define EMPTY(s)	((s) = (bitint447_t){{0U}, {0}})
# define ASS(s, x)	ass_bi447(&(s), (int)(x))
# define NEXT(it, s)	((long long)bi447_next((it), &(s)))
#else
# error pick a container
#endif

/* known-finding classes (see known_findings.json); each is a predicate on the
 * inserted sequence */
#if !defined PRE
# define PRE 0
#endif
/* -DPRE=n: n fixed, distinct values are inserted first so that the K symbolic
 * ones meet the container in its bitset form (the 383/447 types switch from a
 * sorted list to bitsets with the 13th / 15th value) */
static long long pre_val(unsigned i)
{
	return (long long)i * 23 - 140;	/* -140, -117, ..., spread over both signs, never 0 */
}

static bool has_val(long long x)
{
	for (unsigned i = 0; i < PRE; i++) {
		if (pre_val(i) == x) return true;
	}
	for (unsigned i = 0; i < K; i++) {
		if (in.v[i] == x) return true;
	}
	return false;
}

void harness(void)
{
	set_t s;
	long long out[K + PRE + 1];
	unsigned n = 0;
	bitint_iter_t it = 0U;
	long long x;

	sym_load();
	for (unsigned i = 0; i < K; i++) {
		ASSUME(in.v[i] >= LO && in.v[i] <= HI);
	}
#if defined EXTRA_ASSUME
	EXTRA_ASSUME;
#endif
	EMPTY(s);
#if defined BITSET_FORM
	/* the container as it is after its list form has overflown: bit 0 of pos[0]
	 * flags the bitset representation; the values that got it there are dropped
	 * from the state (any subset of bits is a reachable bitset state) */
	s.pos[0] = 1U;
#endif
	for (unsigned i = 0; i < PRE; i++) {
		ASS(s, pre_val(i));
	}
	for (unsigned i = 0; i < K; i++) {
		ASS(s, in.v[i]);
	}
#if defined HAVE_HAS
	ASSUME(in.q >= LO && in.q <= HI);
	CHECK(!!HAS(s, in.q) == has_val(in.q), "membership holds exactly for the inserted values");
#endif
	/* iterate with the protocol every caller in evrrul.c uses:
	 *   for (it = 0; (x = next(&it, s)), it;) */
	for (; (x = NEXT(&it, s)), it;) {
		CHECK(n < K + PRE, "iteration terminates within the number of inserted values");
		if (n >= K + PRE) break;
		out[n++] = x;
	}
	for (unsigned i = 0; i < n; i++) {
		CHECK(has_val(out[i]), "iteration yields only inserted values");
		for (unsigned j = 0; j < i; j++) {
			CHECK(out[i] != out[j], "iteration yields each value once");
		}
	}
	for (unsigned i = 0; i < K + PRE; i++) {
		bool found = false;
		const long long want = i < K ? in.v[i] : pre_val(i - K);
		for (unsigned j = 0; j < n; j++) {
			found |= out[j] == want;
		}
		CHECK(found, "iteration yields every inserted value");
	}
	WITNESS_POINT();
}
