/* C03: merged stream is chronological, complete and duplicate-free.
 * Real code: src/evstrm.c (included textually): next_evmux, make_evmux,
 * echs_evstrm_vmux, free_evmux.  Constituents are array-backed streams
 * (harness/common/arrstrm.h) with symbolic events. */
#include "evstrm.c"

#if !defined NS
# define NS 3
#endif
#if !defined NE
# define NE 3
#endif
#if !defined NOPS
# define NOPS 8
#endif
#define ARR_MAX NE
#define INPUTS XA(cnt, NS) XA(t, NS * NE) XA(oid, NS * NE) XA(op, NOPS)
#include "sym.h"
#include "arrstrm.h"


#if defined VERIF_CBMC && !defined REAL_MALLOC
/* typed allocator stand-in: CBMC models malloc(sizeof(hdr) + n * sizeof(ev)) as
 * an untyped byte array, which costs 30x in formula size; the two requests
 * echs_evstrm_vmux/make_evmux make are served from typed static storage.  free()
 * of the stream array poisons it so any later use is a NULL dereference. */
static struct { struct evmux_s hdr; echs_event_t ev[NS]; } mux_pool;
static echs_evstrm_t strm_pool[NS];
static int pool_freed;
void *malloc(size_t n)
{
	if (n == sizeof(struct evmux_s) + NS * sizeof(echs_event_t)) return &mux_pool;
	if (n == NS * sizeof(echs_evstrm_t)) return strm_pool;
	__CPROVER_assert(0, "CHECK unexpected allocation size");
	return NULL;
}
void free(void *p)
{
	if (p == (void*)strm_pool) {
		__CPROVER_assert(!pool_freed, "CHECK stream array freed twice");
		pool_freed = 1;
		for (unsigned i = 0; i < NS; i++) strm_pool[i] = NULL;
	}
}
#endif

static echs_instant_t mkt(long long t)
{
	/* symbolic minute/second of one fixed day; plus the all-day form for t == 0 */
	echs_instant_t i = {.u = 0U};
	i.y = 2020, i.m = 2, i.d = 29;
	if (t == 0) {
		i.H = ECHS_ALL_DAY;
	} else {
		i.H = 12, i.M = (unsigned)(t >> 6), i.S = (unsigned)(t & 63);
	}
	return i;
}

void harness(void)
{
	static struct arrstrm_s a_0, a_1, a_2, a_3; struct arrstrm_s *const ap[4] = {&a_0, &a_1, &a_2, &a_3};
	echs_evstrm_t in_s[NS];
	unsigned int distinct = 0U;
	bool seen[NS][NE];

	sym_load();
	for (unsigned j = 0; j < NS; j++) {
		ASSUME(in.cnt[j] >= 0 && in.cnt[j] <= NE);
		arr_init(ap[j], (unsigned)in.cnt[j]);
		for (unsigned k = 0; k < NE; k++) {
			const long long t = in.t[j * NE + k];
			ASSUME(t >= 0 && t < 60 * 64 && (t & 63) < 60);
			ASSUME(in.oid[j * NE + k] >= 1 && in.oid[j * NE + k] <= 3);
			ap[j]->ev[k] = (echs_event_t){.from = mkt(t), .oid = (echs_oid_t)in.oid[j * NE + k]};
			seen[j][k] = false;
			/* constituents are strictly increasing streams */
			if (k > 0 && k < (unsigned)in.cnt[j]) {
				ASSUME(echs_instant_lt_p(ap[j]->ev[k - 1].from, ap[j]->ev[k].from));
			}
		}
	}
	/* number of distinct (oid, from) pairs in the union */
	for (unsigned j = 0; j < NS; j++) for (unsigned k = 0; k < NE; k++) {
		if (k < (unsigned)in.cnt[j]) {
			bool dup = false;
			for (unsigned j2 = 0; j2 < j; j2++) for (unsigned k2 = 0; k2 < NE; k2++) {
				dup |= k2 < (unsigned)in.cnt[j2] && echs_event_eq_p(ap[j2]->ev[k2], ap[j]->ev[k]);
			}
			distinct += !dup;
		}
	}
	/* construction through the public API */
	for (unsigned j = 0; j < NS; j++) {
		in_s[j] = (echs_evstrm_t)ap[j];
	}
	echs_evstrm_t mux = echs_evstrm_vmux(in_s, NS);
	CHECK(mux != NULL, "mux of at least one stream exists");
	if (mux == NULL) return;

	echs_event_t prev = {0}, peeked = {0};
	bool have_prev = false, have_peek = false, ended = false;
	unsigned int npop = 0U;
	for (unsigned o = 0; o < NOPS; o++) {
		ASSUME(in.op[o] == 0 || in.op[o] == 1);
		if (in.op[o] == 0) {
			echs_event_t e = next_evmux(mux, false);
			if (have_peek) {
				CHECK(echs_event_eq_p(e, peeked) || (echs_event_0_p(e) && echs_event_0_p(peeked)), "peeking twice shows the same occurrence");
			}
			peeked = e, have_peek = true;
			CHECK(!ended || echs_event_0_p(e), "nothing after end of stream");
			CHECK(!echs_event_0_p(e) || npop == distinct, "peek reports end only when every constituent has ended");
		} else {
			echs_event_t e = next_evmux(mux, true);
			if (have_peek) {
				CHECK(echs_event_eq_p(e, peeked) || (echs_event_0_p(e) && echs_event_0_p(peeked)), "a pop returns what the preceding peek showed");
			}
			have_peek = false;
			if (echs_event_0_p(e)) {
				CHECK(npop == distinct, "stream ends only when every occurrence has been delivered");
				ended = true;
			} else {
				CHECK(!ended, "nothing after end of stream");
				CHECK(npop < distinct, "never more occurrences than the union holds");
				if (have_prev) {
					CHECK(!echs_instant_lt_p(e.from, prev.from), "occurrences come in non-decreasing start order");
				}
				bool known = false, again = false;
				for (unsigned j = 0; j < NS; j++) for (unsigned k = 0; k < NE; k++) {
					if (k < (unsigned)in.cnt[j] && echs_event_eq_p(ap[j]->ev[k], e)) {
						known = true;
						again |= seen[j][k];
						seen[j][k] = true;
					}
				}
				CHECK(known, "every delivered occurrence belongs to a constituent");
				CHECK(!again, "an identical occurrence of the same UID is delivered once");
				npop++;
				prev = e, have_prev = true;
			}
		}
		CHECK(!arr_use_after_free, "no constituent is touched after it was freed");
	}
	WITNESS_POINT();
}
