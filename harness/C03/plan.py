"""C03 -- merged event stream is chronological, complete and duplicate-free (src/evstrm.c)."""
NOTE = ("next_evmux / make_evmux / echs_evstrm_vmux executed symbolically over NS array-backed constituents of up to NE "
        "symbolic events each (instants and oids symbolic, ties and identical (oid,from) pairs across constituents "
        "allowed, one constituent slot possibly NULL) and an arbitrary interleaving of NOPS peek/pop calls.")
ASSUMPTIONS = ["each constituent is a strictly increasing stream honouring the echs_evstrm_class_s contract (array-backed stand-in)",
               "malloc does not fail"]
def ob(name, ns, ne, nops, **kw):
    o = dict(name=name, src='h_mux.c', defs=['NS=%d' % ns, 'NE=%d' % ne, 'NOPS=%d' % nops], units=['src/instant.c'],
             incl=['src/evstrm.c'], replay_units='all', unwind=max(ns * ne, nops) + 2, solver='minisat', slice_formula=True, timeout=800, mem_gb=6,
             checks=['--bounds-check', '--pointer-check'],
             restrict_fp={'echs_evstrm_pop.function_pointer_call.1': ['arr_next'], 'echs_evstrm_next.function_pointer_call.1': ['arr_next'],
                          'free_echs_evstrm.function_pointer_call.1': ['arr_free']},
             enc=['next_evmux', 'make_evmux', 'echs_evstrm_vmux', 'echs_event_lt_p', 'echs_event_eq_p'],
             sym='event counts, instants, oids, the peek/pop schedule, which slot is NULL',
             bounds='%d constituents x <= %d events, %d peek/pop calls' % (ns, ne, nops),
             outside='more constituents / events / calls; nesting of muxes',
             stubs=['array-backed echs_evstrm_class_s (harness/common/arrstrm.h)', 'indirect calls restricted to the array-backed class (goto-instrument --restrict-function-pointer); the mux itself is entered by calling next_evmux directly',
                    'typed static allocator for the two malloc requests of vmux/make_evmux (except obligation *_realmalloc)'])
    o.update(kw)
    return o
OBLIGATIONS = [
    ob('mux_2x1_ops3_realmalloc', 2, 1, 3, defs=['NS=2', 'NE=1', 'NOPS=3', 'REAL_MALLOC'], timeout=900, mem_gb=16,
       bounds='2 constituents x <= 1 event, 3 calls, CBMC\'s own malloc/free model with pointer checks (use after free)'),
    ob('mux_2x2_ops6', 2, 2, 6),
    ob('mux_3x1_ops4', 3, 1, 4),
    ob('mux_3x2_ops6', 3, 2, 6, tiers=('thorough',), timeout=3000, mem_gb=20),
    ob('mux_3x3_ops12', 3, 3, 12, tiers=('thorough',), timeout=3000, mem_gb=20),
]
