"""C20 -- instant and event sorting is a stable ordering permutation."""
NOTE = ("WikiSort as instantiated in src/instant.c and src/event.c executed symbolically on arrays of symbolic "
        "length <= N with symbolic keys; events carry their input index as oid so permutation and stability are "
        "decidable. Lengths beyond the stated N (the property's 4096 and the in-place block-merge path at >= 1024 "
        "elements in particular) are outside what a solver holds and outside the claim.")
ASSUMPTIONS = ["array length <= N per obligation", "long arrays (n=33..34): keys from a 2^KEYBITS-value domain"]

def ob(name, defs, units, n, **kw):
    o = dict(name=name, src='sort.c', defs=defs, units=units, unwind=n + 2, checks=['--bounds-check', '--pointer-check'],
             solver='minisat', timeout=600, mem_gb=8, enc=['WikiSort', 'InsertionSort', 'echs_instant_lt_p'],
             sym='array length and every key', bounds='length <= %d' % n, outside='lengths > %d' % n)
    o.update(kw)
    return o

I = ['src/instant.c']
E = ['src/event.c', 'src/instant.c']
OBLIGATIONS = [
    dict(name='cmp_strict_weak_order', src='sort.c', defs=['CMP', 'N=3'], units=[], unwind=4,
         enc=['echs_instant_lt_p', 'echs_instant_le_p'], sym='three arbitrary 64-bit instants', bounds='none (all 2^192 triples)'),
]
# one query per exact length: a concrete length keeps the insertion sort's loop structure concrete
for n in (2, 3, 4, 5):
    OBLIGATIONS.append(ob('instants_n%d' % n, ['N=%d' % n, 'NFIX'], I, n, sym='%d arbitrary 64-bit instants' % n, bounds='length exactly %d' % n))
for n in (2, 3, 4, 5):
    OBLIGATIONS.append(ob('events_n%d_keys16' % n, ['N=%d' % n, 'NFIX', 'EVENTS', 'KEYBITS=4'], E, n, bounds='length exactly %d, keys from a 16-value domain with all-day/all-second ties' % n))
OBLIGATIONS += [
    ob('instants_n6', ['N=6', 'NFIX'], I, 6, tiers=('thorough',), timeout=2400, mem_gb=12, solver='cadical', bounds='length exactly 6'),
    ob('instants_n7', ['N=7', 'NFIX'], I, 7, tiers=('thorough',), timeout=3000, mem_gb=12, solver='cadical', bounds='length exactly 7'),
    ob('events_n6_keys16', ['N=6', 'NFIX', 'EVENTS', 'KEYBITS=4'], E, 6, tiers=('thorough',), timeout=2400, mem_gb=16, bounds='length exactly 6'),
    ob('events_n8_keys16', ['N=8', 'NFIX', 'EVENTS', 'KEYBITS=4'], E, 8, tiers=('thorough',), timeout=3000, mem_gb=16, bounds='length exactly 8'),
    ob('events_n33_keys4', ['N=33', 'NFIX', 'EVENTS', 'KEYBITS=2'], E, 34, tiers=('thorough',), timeout=3000, mem_gb=24,
       enc=['WikiSort', 'InsertionSortBinary', 'BinaryLast', 'MergeExternal', 'WikiIterator_*'],
       bounds='length exactly 33 (binary-insertion + cached merge path), keys from a 4-value domain'),
]

# leaf kernels of the in-place block-merge path, entered directly
for kern, kname in ((1, 'MergeExternal'), (2, 'MergeInPlace'), (3, 'MergeInternal')):
    OBLIGATIONS.append(dict(
        name='kern_%s_2x2' % kname, src='h_kern.c', defs=['KERN=%d' % kern, 'NA=2', 'NB=2'], units=['src/instant.c'], incl=['src/event.c'], replay_units='all',
        unwind=8, unwindset={'memcpy.*': 52, 'memmove.*': 33, 'memset.*': 4}, checks=['--bounds-check', '--pointer-check'], solver='minisat' if kern == 2 else 'cadical', slice_formula=kern == 2, timeout=2400 if kern == 2 else 900, mem_gb=16, tiers=('thorough',) if kern == 2 else ('quick', 'thorough'),
        stubs=['word-wise memcpy (harness/common/libc_models.h)'],
        enc=[kname, 'BinaryFirst', 'BinaryLast', 'Rotate', 'Reverse', 'BlockSwap'], sym='run lengths 1..3 each and every key (8-value domain with all-day/all-second ties)',
        bounds='two adjacent sorted runs of <= 2 events each', outside='longer runs (3x3 in the thorough tier); the block selection logic of WikiSort above 1024 elements'))
    OBLIGATIONS.append(dict(
        name='kern_%s_3x3' % kname, src='h_kern.c', defs=['KERN=%d' % kern, 'NA=3', 'NB=3'], units=['src/instant.c'], incl=['src/event.c'], replay_units='all',
        unwind=12, unwindset={'memcpy.*': 52, 'memmove.*': 33, 'memset.*': 4}, checks=['--bounds-check', '--pointer-check'], solver='cadical', timeout=3000, mem_gb=24, tiers=('thorough',),
        enc=[kname, 'BinaryFirst', 'BinaryLast', 'Rotate'], sym='run lengths 1..3 each and every key', bounds='two adjacent sorted runs of <= 3 events each'))
