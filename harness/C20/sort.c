/* C20: echs_instant_sort / echs_event_sort return a stable, ordered
 * permutation.  Real code: src/wikisort.c as instantiated by src/instant.c
 * and src/event.c, comparator echs_instant_lt_p (src/instant.h).
 *   -DN=<len>  array length        -DEVENTS  sort events (stability observable)
 *   -DKEYBITS=<b> keys drawn from a 2^b-value domain (events / long arrays)
 *   -DCMP  comparator obligations only */
#if defined HAVE_CONFIG_H
# include "config.h"
#endif
#include <stdbool.h>
#include <stddef.h>
#include "instant.h"
#include "event.h"

#if !defined N
# define N 4
#endif
#define INPUTS XA(k, N) X(n)
#include "sym.h"

#if defined KEYBITS
/* small key domain with the interesting ties: same day all-day vs timed, same
 * second all-second vs ms */
static echs_instant_t key(long long k)
{
	echs_instant_t i = {.u = 0U};
	i.y = 2000 + ((k >> 3) & 0x7f), i.m = 2, i.d = 28 + ((k >> 2) & 1);
	switch (k & 3) {
	case 0: i.H = ECHS_ALL_DAY; break;
	case 1: i.H = 0, i.ms = ECHS_ALL_SEC; break;
	case 2: i.H = 0, i.ms = 0; break;
	default: i.H = 23, i.M = 59, i.S = 59, i.ms = 999; break;
	}
	return i;
}
#else
static echs_instant_t key(long long k)
{
	echs_instant_t i = {.u = (uint64_t)k};
	return i;
}
#endif

void harness(void)
{
	sym_load();
#if defined CMP
	echs_instant_t a = key(in.k[0]), b = key(in.k[1]), c = key(in.k[2]);
	CHECK(!echs_instant_lt_p(a, a), "irreflexive");
	CHECK(!(echs_instant_lt_p(a, b) && echs_instant_lt_p(b, a)), "asymmetric");
	CHECK(!(echs_instant_lt_p(a, b) && echs_instant_lt_p(b, c)) || echs_instant_lt_p(a, c), "transitive");
	CHECK(echs_instant_lt_p(a, b) || echs_instant_lt_p(b, a) || a.u == b.u, "total: incomparable means identical");
	CHECK(echs_instant_le_p(a, b) == !echs_instant_lt_p(b, a), "le_p is the complement of the converse");
	WITNESS_POINT();
#else
	size_t n = (size_t)in.n;
# if defined NFIX
	ASSUME(n == N);
# else
	ASSUME(n <= N);
# endif
# if defined KEYBITS
	for (unsigned i = 0; i < N; i++) ASSUME(in.k[i] >= 0 && in.k[i] < (1 << KEYBITS));
# endif
# if defined EVENTS
	echs_event_t a[N], o[N];
	for (unsigned i = 0; i < N; i++) {
		a[i] = (echs_event_t){.from = key(in.k[i]), .oid = i + 1U};
		o[i] = a[i];
	}
	echs_event_sort(a, n);
	/* ordered and stable: equal keys keep their input order (oid = input index) */
	for (unsigned i = 0; i + 1 < N; i++) {
		if (i + 1 < n) {
			CHECK(!echs_instant_lt_p(a[i + 1].from, a[i].from), "non-decreasing chronological order");
			CHECK(a[i].from.u != a[i + 1].from.u || a[i].oid < a[i + 1].oid, "stable: equal elements keep their order");
		}
	}
	/* permutation: every output is the input element its tag names, tags distinct */
	for (unsigned i = 0; i < N; i++) {
		if (i < n) {
			unsigned t = (unsigned)a[i].oid;
			CHECK(t >= 1U && t <= n, "output element carries an input tag");
			if (t >= 1U && t <= N) {
				CHECK(a[i].from.u == o[t - 1U].from.u, "output element equals the tagged input element");
			}
			for (unsigned j = 0; j < i; j++) {
				CHECK(a[j].oid != a[i].oid, "no element duplicated");
			}
		} else {
			CHECK(a[i].oid == o[i].oid && a[i].from.u == o[i].from.u, "elements beyond the length untouched");
		}
	}
# else
	echs_instant_t a[N], o[N];
	for (unsigned i = 0; i < N; i++) {
		a[i] = key(in.k[i]);
		o[i] = a[i];
	}
	echs_instant_sort(a, n);
	for (unsigned i = 0; i + 1 < N; i++) {
		if (i + 1 < n) {
			CHECK(!echs_instant_lt_p(a[i + 1], a[i]), "non-decreasing chronological order");
		}
	}
	/* permutation: multiset equality by counting */
	for (unsigned i = 0; i < N; i++) {
		if (i < n) {
			unsigned ci = 0, co = 0;
			for (unsigned j = 0; j < N; j++) {
				if (j < n) {
					ci += o[j].u == o[i].u;
					co += a[j].u == o[i].u;
				}
			}
			CHECK(ci == co, "output is a permutation of the input");
		} else {
			CHECK(a[i].u == o[i].u, "elements beyond the length untouched");
		}
	}
# endif
	WITNESS_POINT();
#endif
}
