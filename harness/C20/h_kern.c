/* C20 (leaf kernels of the in-place path): the three merge routines of
 * src/wikisort.c as instantiated for events (src/event.c, included textually)
 * against their contract: given two adjacent sorted runs A and B, the result is
 * the STABLE merge.  The full sort only reaches MergeInternal/MergeInPlace for
 * arrays of >= 1024 elements, which no solver holds; here they are entered
 * directly on runs of NA + NB symbolic events.
 *   -DKERN=1 MergeExternal (A copied to the cache)   -DKERN=2 MergeInPlace (no cache)
 *   -DKERN=3 MergeInternal (internal buffer range)  */
#define WORD_MEMOPS
#include "libc_models.h"
#include "event.c"

#if !defined NA
# define NA 3
#endif
#if !defined NB
# define NB 3
#endif
#define NTOT (NA + NB)
#define INPUTS XA(k, NTOT) X(na) X(nb)
#include "sym.h"

static echs_instant_t key(long long k)
{
	echs_instant_t i = {.u = 0U};
	i.y = 2000, i.m = 2, i.d = 28 + ((k >> 2) & 1);
	switch (k & 3) {
	case 0: i.H = ECHS_ALL_DAY; break;
	case 1: i.H = 0, i.ms = ECHS_ALL_SEC; break;
	case 2: i.H = 0, i.ms = 0; break;
	default: i.H = 23, i.M = 59, i.S = 59, i.ms = 999; break;
	}
	return i;
}

void harness(void)
{
	/* layout: [A | B | buffer (KERN 3)] */
	echs_event_t a[NTOT + NA], o[NTOT];
	echs_event_t cache[NA + 1];
	sym_load();
	ASSUME(in.na >= 1 && in.na <= NA && in.nb >= 1 && in.nb <= NB);
	const size_t na = (size_t)in.na, nb = (size_t)in.nb;
	for (unsigned i = 0; i < NTOT; i++) {
		ASSUME(in.k[i] >= 0 && in.k[i] < 8);
		a[i] = (echs_event_t){.from = key(in.k[i]), .oid = i + 1U};
	}
	/* A = a[0..na), B = a[na..na+nb), both sorted (non-decreasing) */
	for (unsigned i = 0; i + 1 < NTOT; i++) {
		if (i + 1 < na) ASSUME(!echs_instant_lt_p(a[i + 1].from, a[i].from));
		if (i >= na && i + 1 < na + nb) ASSUME(!echs_instant_lt_p(a[i + 1].from, a[i].from));
	}
	for (unsigned i = 0; i < NTOT; i++) o[i] = a[i];
	const Range A = Range_new(0, na), B = Range_new(na, na + nb);
#if KERN == 1
	for (unsigned i = 0; i < NA; i++) if (i < na) cache[i] = a[i];
	MergeExternal(a, A, B, cache, NA);
#elif KERN == 2
	MergeInPlace(a, A, B, cache, 0);
#else
	/* A's content sits in the internal buffer behind B, as WikiSort arranges it */
	for (unsigned i = 0; i < NA; i++) if (i < na) { a[na + nb + i] = a[i]; }
	MergeInternal(a, A, B, Range_new(na + nb, na + nb + na));
#endif
	/* stable merge: sorted, equal keys keep input order (oid = input index) */
	for (unsigned i = 0; i + 1 < NTOT; i++) {
		if (i + 1 < na + nb) {
			CHECK(!echs_instant_lt_p(a[i + 1].from, a[i].from), "merge result is in non-decreasing order");
			CHECK(a[i].from.u != a[i + 1].from.u || a[i].oid < a[i + 1].oid, "merge is stable: equal elements keep their order");
		}
	}
	for (unsigned i = 0; i < NTOT; i++) {
		if (i < na + nb) {
			const unsigned t = (unsigned)a[i].oid;
			CHECK(t >= 1U && t <= na + nb, "merged element carries an input tag");
			if (t >= 1U && t <= NTOT) CHECK(a[i].from.u == o[t - 1U].from.u, "merged element equals the tagged input element");
			for (unsigned j = 0; j < i; j++) CHECK(a[j].oid != a[i].oid, "no element duplicated");
		}
	}
	WITNESS_POINT();
}
