/* libc_models.h -- reference bodies for libc functions that CBMC 6.11 has no
 * (or only a nondeterministic) model for.  Only compiled under VERIF_CBMC; the
 * native replay uses the real libc.  Each one used is listed as a stub in the
 * evidence of the obligation that includes it. */
#if !defined INCLUDED_libc_models_h_
#define INCLUDED_libc_models_h_
#if defined VERIF_CBMC
#include <stddef.h>
#include <limits.h>

/* index form (one pointer expression base+idx instead of a cascade of returns: the
 * result feeds further pointer arithmetic in the parser's line chopper) */
void *memchr(const void *s, int c, size_t n)
{
	const unsigned char *p = s;
	size_t idx = n;
	for (size_t i = 0; i < n; i++) {
		if (idx == n && p[i] == (unsigned char)c) idx = i;
	}
	return idx < n ? (void*)(p + idx) : NULL;
}

/* bases 10, 8 and 0 (auto: leading 0 = octal), which is all echse asks for; at most
 * 10 digits: longer inputs are outside what the harnesses feed it */
long int strtol(const char *s, char **on, int base)
{
	long int r = 0;
	int neg = 0;
	size_t i = 0;
	while (s[i] == ' ' || s[i] == '\t') i++;
	if (s[i] == '-') neg = 1, i++;
	else if (s[i] == '+') i++;
	if (base == 0) base = s[i] == '0' ? 8 : 10;
	size_t d0 = i;
	for (unsigned k = 0; k < 10U && s[i] >= '0' && s[i] < '0' + base; k++, i++) {
		r = r * base + (s[i] - '0');
	}
	if (on != NULL) *on = (char*)(s + (i == d0 ? 0 : i));
	return neg ? -r : r;
}

#if defined WORD_MEMOPS
/* word-wise memcpy/memmove/memset: CBMC's built-in models go through byte
 * arrays of symbolic size (array theory), which exhausts memory on the bitint
 * containers; every use in the encoded code is on 4-byte aligned int32/uint32
 * arrays with sizes that are multiples of 4, for which these are exact. */
#include <stdint.h>
void *memcpy(void *d, const void *s, size_t n)
{
	uint32_t *dd = d;
	const uint32_t *ss = s;
	__CPROVER_assert(n % 4U == 0U, "CHECK word-wise memcpy model applies");
	for (size_t i = 0; i < n / 4U; i++) dd[i] = ss[i];
	return d;
}
void *memmove(void *d, const void *s, size_t n)
{
	uint32_t *dd = d;
	const uint32_t *ss = s;
	uint32_t tmp[32];
	__CPROVER_assert(n % 4U == 0U && n / 4U <= 32U, "CHECK word-wise memmove model applies");
	for (size_t i = 0; i < n / 4U && i < 32U; i++) tmp[i] = ss[i];
	for (size_t i = 0; i < n / 4U && i < 32U; i++) dd[i] = tmp[i];
	return d;
}
void *memset(void *d, int c, size_t n)
{
	uint32_t *dd = d;
	__CPROVER_assert(n % 4U == 0U && c == 0, "CHECK word-wise memset model applies");
	for (size_t i = 0; i < n / 4U; i++) dd[i] = 0U;
	return d;
}
#endif
#endif
#endif
