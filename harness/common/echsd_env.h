/* echsd_env.h -- the daemon (src/echsd.c, included textually by the harness) in a
 * box: stand-ins for libev, process spawning, the file system and the clock.
 * Every stand-in is part of the claim of the properties that use it (C04, C06,
 * C11, C12, C14) and is listed in their evidence.
 *
 * libev stand-in (virtual time, modelled on libev 4's periodics_reify):
 *   ev_periodic_start(w): at = reschedule_cb ? reschedule_cb(w, NOW) : offset; active
 *   env_advance(t):       NOW = t (t >= NOW); every active periodic with at < NOW gets
 *                         at = reschedule_cb(w, NOW) if it has one, else it is stopped;
 *                         THEN its callback runs -- the order resched() relies on;
 *                         at most one callback per watcher per step
 *   ev_child_start/stop:  registry; env_child_exit(k) invokes the k-th watcher's callback
 * process stand-in: posix_spawn records (virtual time, whether "-nd"/--no-run was
 *   passed, the DURATION the request carried) and returns fresh pids
 * output stand-in: src/fdprnt.h is pre-empted; fdprintf/fdwrite record what matters
 *   (the DURATION line) instead of formatting
 */
#if !defined INCLUDED_echsd_env_h_
#define INCLUDED_echsd_env_h_

/* ---- pre-empt fdprnt.h: capture instead of format */
#define INCLUDED_fdprnt_h_
#include <stdarg.h>
#include <string.h>
#include <sys/types.h>
static int env_cap_dur = -1;		/* argument of the last "DURATION:%d" */
static int env_cap_dur_iso;		/* ... printed as "DURATION:PT%dS" */
static unsigned int env_cap_lines;
static int env_out_fd;
static int fdbang(int fd) { env_out_fd = fd; return 0; }
static ssize_t fdflush(void) { return 0; }
static int __attribute__((unused)) fdputc(int c) { (void)c; return 0; }
static ssize_t fdwrite(const char *s, size_t n) { (void)s; env_cap_lines++; return (ssize_t)n; }
static int fdprintf(const char *fmt, ...)
{
	va_list ap;
	va_start(ap, fmt);
	if (fmt[0] == 'D' && fmt[1] == 'U' && fmt[2] == 'R') {
		env_cap_dur = va_arg(ap, int);
		env_cap_dur_iso = fmt[9] == 'P';
	}
	va_end(ap);
	env_cap_lines++;
	return 0;
}

#define main echsd_main
#include "echsd.c"
#undef main

/* ---- logging: formatting and logging get empty bodies (the native replay links the real logger.c) */
#if defined VERIF_CBMC
static void env_log(int prio, const char *fmt, ...) { (void)prio; (void)fmt; }
void(*echs_log)(int prio, const char *fmt, ...) = env_log;
void echs_errlog(int prio, const char *fmt, ...) { (void)prio; (void)fmt; }
#endif
/* the executor's path is set up by main(), which no harness runs */
#define ENV_INIT()	(echsx = "/usr/libexec/echsx")

#if defined VERIF_CBMC && !defined ENV_OWN_SNPRINTF
/* file names are not looked at by these harnesses (C06 brings its own) */
int snprintf(char *buf, size_t z, const char *fmt, ...) { (void)fmt; if (z) buf[0] = '\0'; return 0; }
#endif

/* ---- libev stand-in */
#if !defined ENV_MAXP
# define ENV_MAXP 3
#endif
#if !defined ENV_MAXC
# define ENV_MAXC 4
#endif
static ev_tstamp ENV_NOW;
static ev_periodic *env_per[ENV_MAXP];
static ev_child *env_chl[ENV_MAXC];
static int env_overflow;

void ev_periodic_start(struct ev_loop *l, ev_periodic *w)
{
	(void)l;
	if (w->reschedule_cb) {
		((ev_watcher_time*)w)->at = w->reschedule_cb(w, ENV_NOW);
	} else {
		((ev_watcher_time*)w)->at = w->offset;
	}
	for (unsigned i = 0; i < ENV_MAXP; i++) {
		if (env_per[i] == w) return;
	}
	for (unsigned i = 0; i < ENV_MAXP; i++) {
		if (env_per[i] == NULL) {
			env_per[i] = w;
			w->active = 1;
			return;
		}
	}
	env_overflow = 1;
}

void ev_periodic_stop(struct ev_loop *l, ev_periodic *w)
{
	(void)l;
	for (unsigned i = 0; i < ENV_MAXP; i++) {
		if (env_per[i] == w) env_per[i] = NULL;
	}
	w->active = 0;
}

void ev_child_start(struct ev_loop *l, ev_child *c)
{
	(void)l;
	for (unsigned i = 0; i < ENV_MAXC; i++) {
		if (env_chl[i] == NULL) {
			env_chl[i] = c;
			c->active = 1;
			return;
		}
	}
	env_overflow = 1;
}

void ev_child_stop(struct ev_loop *l, ev_child *c)
{
	(void)l;
	for (unsigned i = 0; i < ENV_MAXC; i++) {
		if (env_chl[i] == c) env_chl[i] = NULL;
	}
	c->active = 0;
}

void ev_loop_fork(struct ev_loop *l) { (void)l; }
void ev_break(struct ev_loop *l, int how) { (void)l; (void)how; }

/* one loop iteration at virtual time T */
static void env_advance(ev_tstamp t)
{
	ev_periodic *due[ENV_MAXP];
	unsigned int ndue = 0U;
	ENV_NOW = t;
	for (unsigned i = 0; i < ENV_MAXP; i++) {
		ev_periodic *w = env_per[i];
		if (w != NULL && ev_periodic_at(w) < ENV_NOW) {
			if (w->reschedule_cb) {
				((ev_watcher_time*)w)->at = w->reschedule_cb(w, ENV_NOW);
			} else {
				ev_periodic_stop(NULL, w);
			}
			due[ndue++] = w;
		}
	}
	for (unsigned i = 0; i < ENV_MAXP; i++) {
		if (i < ndue) {
			due[i]->cb(NULL, due[i], EV_PERIODIC);
		}
	}
}

/* the K-th supervised child exits */
static int env_child_exit(unsigned int k)
{
	if (k < ENV_MAXC && env_chl[k] != NULL) {
		ev_child *c = env_chl[k];
		c->rpid = c->pid;
		c->rstatus = 0;
		c->cb(NULL, c, EV_CHILD);
		return 1;
	}
	return 0;
}

/* ---- add_chkpnt(): the dirty-user bookkeeping (a nedtrie insertion, 25k symex steps per
 * reachable call site) is C06's subject; C04/C11/C12 cut it with goto-instrument
 * --replace-calls add_chkpnt:env_add_chkpnt and only record that it was asked for */
static unsigned int env_chkpnt_asked;
void env_add_chkpnt(uid_t u) { (void)u; env_chkpnt_asked++; }

/* ---- child watcher allocation: echsd's free-list pool is an array of ev_child threaded through
 * malloc'ed memory; harnesses whose subject is not the pool itself replace make_chld/free_chld
 * (goto-instrument --replace-calls) by this separate-objects allocator */
static ev_child env_chld_obj[4];
static int env_chld_used[4];
ev_child *env_make_chld(void)
{
	if (!env_chld_used[0]) { env_chld_used[0] = 1; return &env_chld_obj[0]; }
	if (!env_chld_used[1]) { env_chld_used[1] = 1; return &env_chld_obj[1]; }
	if (!env_chld_used[2]) { env_chld_used[2] = 1; return &env_chld_obj[2]; }
	if (!env_chld_used[3]) { env_chld_used[3] = 1; return &env_chld_obj[3]; }
	return NULL;
}
void env_free_chld(ev_child *c)
{
	if (c == &env_chld_obj[0]) env_chld_used[0] = 0;
	if (c == &env_chld_obj[1]) env_chld_used[1] = 0;
	if (c == &env_chld_obj[2]) env_chld_used[2] = 0;
	if (c == &env_chld_obj[3]) env_chld_used[3] = 0;
}

/* ---- task watcher allocation: make_task_pool() hands out one malloc'ed array threaded into a free
 * list; with several tasks every `t->' access then is an access at a symbolic offset into that
 * one object.  Harnesses with more than one task replace make_task_pool (goto-instrument
 * --replace-calls) by this chain of separate objects; make_task()/free_task() only ever
 * follow ->next.  At most 4 tasks, one pool. */
static struct _task_s env_task_obj0, env_task_obj1, env_task_obj2, env_task_obj3;
static int env_task_pools;
_task_t env_make_task_pool(size_t n)
{
	if (n > 4U || env_task_pools++) {
		env_overflow = 1;
		return NULL;
	}
	env_task_obj0.next = n > 1U ? &env_task_obj1 : NULL;
	env_task_obj1.next = n > 2U ? &env_task_obj2 : NULL;
	env_task_obj2.next = n > 3U ? &env_task_obj3 : NULL;
	env_task_obj3.next = NULL;
	return &env_task_obj0;
}

/* ---- process / file stand-ins */
/* the spawn log keeps the most recent request only (scalars: no symbolic array index) */
struct env_spawn_s {
	ev_tstamp when;
	int norun;
};
static struct env_spawn_s env_last_spawn;
static unsigned int env_nspawn;
static int env_next_fd = 10;
static int env_next_pid = 1000;
static int env_spawn_fails;

int pipe(int fd[2]) { fd[0] = env_next_fd++, fd[1] = env_next_fd++; return 0; }
int posix_spawn_file_actions_init(posix_spawn_file_actions_t *fa) { (void)fa; return 0; }
int posix_spawn_file_actions_destroy(posix_spawn_file_actions_t *fa) { (void)fa; return 0; }
int posix_spawn_file_actions_adddup2(posix_spawn_file_actions_t *fa, int a, int b) { (void)fa; (void)a; (void)b; return 0; }
int posix_spawn_file_actions_addclose(posix_spawn_file_actions_t *fa, int a) { (void)fa; (void)a; return 0; }
int posix_spawn(pid_t *pid, const char *path, const posix_spawn_file_actions_t *fa,
		const posix_spawnattr_t *at, char *const argv[], char *const envp[])
{
	(void)path; (void)fa; (void)at; (void)envp;
	if (env_spawn_fails) return -1;
	env_last_spawn.when = ENV_NOW;
	env_last_spawn.norun = argv[2] != NULL;
	env_nspawn++;
	*pid = env_next_pid++;
	return 0;
}

#if !defined VERIF_CBMC
/* native replay only: the rest of libev that echsd.c references but no harness reaches */
struct ev_loop *ev_default_loop(unsigned int f) { (void)f; return NULL; }
int ev_run(struct ev_loop *l, int f) { (void)l; (void)f; return 0; }
void ev_loop_destroy(struct ev_loop *l) { (void)l; }
void ev_signal_start(struct ev_loop *l, ev_signal *w) { (void)l; (void)w; }
void ev_timer_start(struct ev_loop *l, ev_timer *w) { (void)l; (void)w; }
void ev_io_start(struct ev_loop *l, ev_io *w) { (void)l; (void)w; }
void ev_io_stop(struct ev_loop *l, ev_io *w) { (void)l; (void)w; }
#endif

#endif	/* INCLUDED_echsd_env_h_ */
