/* arrstrm.h -- array-backed event stream class implementing the documented
 * echs_evstrm_class_s contract (next with/without pop, clone, free).
 * Used where a property is about a combinator (evmux, evfilt, the daemon's
 * scheduler) and not about rule expansion.  Detects use after free. */
#if !defined INCLUDED_arrstrm_h_
#define INCLUDED_arrstrm_h_
#include <stdlib.h>
#include "evstrm.h"

#if !defined ARR_MAX
# define ARR_MAX 3
#endif

struct arrstrm_s {
	echs_evstrm_class_t class;
	unsigned int n, i;
	int freed;
	unsigned int npop, npeek;
	echs_event_t ev[ARR_MAX];
};

static int arr_use_after_free;

static echs_event_t arr_next(echs_evstrm_t s, bool popp)
{
	struct arrstrm_s *this = (struct arrstrm_s*)s;
	if (this->freed) {
		arr_use_after_free = 1;
		return (echs_event_t){0};
	}
	if (this->i >= this->n) {
		return (echs_event_t){0};
	}
	if (popp) {
		this->npop++;
		return this->ev[this->i++];
	}
	this->npeek++;
	return this->ev[this->i];
}

static void arr_free(echs_evstrm_t s)
{
	struct arrstrm_s *this = (struct arrstrm_s*)s;
	if (this->freed) {
		arr_use_after_free = 1;
	}
	this->freed = 1;
}

static echs_evstrm_t arr_clone(echs_const_evstrm_t s);
static void arr_seria(int w, echs_const_evstrm_t s) { (void)w; (void)s; }

static const struct echs_evstrm_class_s arr_cls = {
	.next = arr_next, .clone = arr_clone, .free = arr_free, .seria = arr_seria,
};

static echs_evstrm_t arr_clone(echs_const_evstrm_t s)
{
	struct arrstrm_s *c = malloc(sizeof(*c));
	__CPROVER_assume(c != NULL);
	*c = *(const struct arrstrm_s*)s;
	return (echs_evstrm_t)c;
}

static void arr_init(struct arrstrm_s *a, unsigned int n)
{
	a->class = &arr_cls;
	a->n = n, a->i = 0U, a->freed = 0, a->npop = 0U, a->npeek = 0U;
}
#endif
