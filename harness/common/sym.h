/* sym.h -- one harness source, two builds.
 *
 *  - under CBMC (goto-cc defines __CPROVER__): every input named in the
 *    harness's INPUTS x-macro list is a solver variable; CHECK() is an
 *    assertion; ASSUME() an assumption; WITNESS_POINT() is assert(0) in the
 *    -DWITNESS twin (must come back FAILED = harness reaches its end).
 *  - natively (-DREPLAY): the very same harness is an ordinary program that
 *    reads `name=value' lines (the counterexample extracted from the solver's
 *    trace) and runs the real code on them.  exit 0: nothing reproduced,
 *    exit 1: a CHECK failed (reproduced), exit 77: an ASSUME failed (the
 *    trace does not describe a valid input - machinery bug).
 *
 * A harness defines, before including this file,
 *   #define INPUTS  X(year) X(mon) XA(val, 3)
 * and gets `struct sym_in_s in' with long long members.  */
#if !defined INCLUDED_sym_h_
#define INCLUDED_sym_h_
#include <stdint.h>
#include <stddef.h>

#if !defined INPUTS
# error harness must define INPUTS
#endif

struct sym_in_s {
#define X(n)		long long n;
#define XA(n, k)	long long n[k];
	INPUTS
#undef X
#undef XA
	long long sym_sentinel_;
};
struct sym_in_s in;

#if defined VERIF_CBMC
long long nondet_ll(void);
static inline void sym_load(void)
{
#define X(n)		in.n = nondet_ll();
#define XA(n, k)	for (unsigned sym_i_ = 0; sym_i_ < (k); sym_i_++) in.n[sym_i_] = nondet_ll();
	INPUTS
#undef X
#undef XA
# if defined SYM_PIN
	/* debugging aid: pin inputs to a stored counterexample, e.g. -DSYM_PIN='__CPROVER_assume(in.x==3);' */
	SYM_PIN
# endif
}
# define ASSUME(c)	__CPROVER_assume(c)
# if defined WITNESS
#  define CHECK(c, msg)	((void)(c))
#  define WITNESS_POINT()	__CPROVER_assert(0, "WITNESS reached")
# else
#  define CHECK(c, msg)	__CPROVER_assert((c), "CHECK " msg)
#  define WITNESS_POINT()	((void)0)
# endif
# define REPLAY_NOTE(...)	((void)0)

#else  /* native replay */
# include <stdio.h>
# include <stdlib.h>
# include <string.h>
# include <unistd.h>
static const char *sym_file_;
static inline void sym_load(void)
{
	FILE *f = fopen(sym_file_, "r");
	char line[512];
	if (f == NULL) { perror("replay input"); exit(78); }
	while (fgets(line, sizeof(line), f)) {
		char *eq = strchr(line, '=');
		long long v;
		if (line[0] == '#' || eq == NULL) continue;
		*eq = '\0';
		v = strtoll(eq + 1, NULL, 0);
#define X(n)		if (!strcmp(line, "in." #n)) { in.n = v; continue; }
#define XA(n, k)	if (!strncmp(line, "in." #n "[", sizeof("in." #n "[") - 1U)) { \
				unsigned long ix = strtoul(line + sizeof("in." #n "[") - 1U, NULL, 10); \
				if (ix < (k)) in.n[ix] = v; continue; }
		INPUTS
#undef X
#undef XA
	}
	fclose(f);
}
# define ASSUME(c)	do { if (!(c)) { fprintf(stderr, "REPLAY-ASSUME-FAILED %s:%d %s\n", __FILE__, __LINE__, #c); exit(77); } } while (0)
# define CHECK(c, msg)	do { if (!(c)) { fprintf(stderr, "REPLAY-CHECK-FAILED %s:%d %s\n", __FILE__, __LINE__, msg); fflush(stderr); _exit(1); } } while (0)
# define WITNESS_POINT()	((void)0)
# define REPLAY_NOTE(...)	fprintf(stderr, __VA_ARGS__)
# define __CPROVER_assume(c)	ASSUME(c)
#endif

/* every harness entry point is `void harness(void)' */
void harness(void);

#if !defined VERIF_CBMC
int main(int argc, char *argv[])
{
	if (argc < 2) { fprintf(stderr, "usage: replay INPUTFILE\n"); return 78; }
	sym_file_ = argv[1];
	sym_load();
	harness();
	fprintf(stderr, "REPLAY-OK no check failed\n");
	return 0;
}
#endif
#endif	/* INCLUDED_sym_h_ */
