/* C05 (token level): tasks survive serialisation unchanged.
 * Real code: src/evical.c (included textually): send_rrul, send_cd, send_task,
 * snarf_fld (numeric fields), make_task's off-by-one corrections, and the
 * keyword table __evrrul_key (src/evrrul-gp.c).  The buffered writer
 * src/fdprnt.h is pre-empted: fdprintf/fdwrite/fdputc RECORD the format string
 * and integer argument of every call instead of formatting.  Reading back uses
 * the real keyword table and the parser's own range rules; printf("%d") and
 * strtol are taken as mutually inverse.
 *   -DRRUL     every BY-part with symbolic values -> send_rrul -> tokens -> rule
 *   -DTASKNUM  umask / max-simul / mail flags -> send_task -> text -> snarf_fld -> make_task */
#include "libc_models.h"
#define INCLUDED_fdprnt_h_
#include <stdarg.h>
#include <string.h>
#include <sys/types.h>
#include <stdbool.h>
#if defined RRUL
/* decode on the fly: the recorder is the reader.  State: the key of the part being
 * written, looked up in the REAL keyword table when a ";KEY=..." format arrives. */
struct rd_s;
static void rd_key(const char *fmt);
static void rd_val(long long v);
static void rd_lit(const char *s, size_t n);
static void rd_chr(int c);
static int fdbang(int fd) { (void)fd; return 0; }
static ssize_t fdflush(void) { return 0; }
static int fdputc(int c) { rd_chr(c); return 0; }
static ssize_t fdwrite(const char *s, size_t n) { rd_lit(s, n); return (ssize_t)n; }
static int fdprintf(const char *fmt, ...)
{
	va_list ap;
	long long a = 0;
	bool conv = false;
	va_start(ap, fmt);
	for (unsigned i = 0; fmt[i] && i < 24U; i++) {
		if (fmt[i] == '%') {
			if (fmt[i + 1] == 'z') a = (long long)va_arg(ap, size_t), conv = true;
			else if (fmt[i + 1] == 'u' || fmt[i + 1] == 'o') a = (long long)va_arg(ap, unsigned int), conv = true;
			else if (fmt[i + 1] == 'd') a = (long long)va_arg(ap, int), conv = true;
			break;
		}
	}
	va_end(ap);
	if (fmt[0] == ';') rd_key(fmt);
	if (conv) rd_val(a);
	return 0;
}
#else
#define MAXTOK 24
struct tok_s {
	const char *fmt;	/* format string / literal */
	long long arg;		/* first integer argument, if any */
	int ch;			/* fdputc character, or 0 */
};
static struct tok_s tok[MAXTOK];
static unsigned int ntok;
static int fdbang(int fd) { (void)fd; return 0; }
static ssize_t fdflush(void) { return 0; }
static int fdputc(int c) { if (ntok < MAXTOK) tok[ntok] = (struct tok_s){NULL, 0, c}; ntok++; return 0; }
static ssize_t fdwrite(const char *s, size_t n) { if (ntok < MAXTOK) tok[ntok] = (struct tok_s){s, 0, 0}; ntok++; return (ssize_t)n; }
static int fdprintf(const char *fmt, ...)
{
	va_list ap;
	long long a = 0;
	va_start(ap, fmt);
	for (unsigned i = 0; fmt[i] && i < 24U; i++) {
		if (fmt[i] == '%') {
			if (fmt[i + 1] == 'z') a = (long long)va_arg(ap, size_t);
			else if (fmt[i + 1] == 'u' || fmt[i + 1] == 'o') a = (long long)va_arg(ap, unsigned int);
			else if (fmt[i + 1] == 'd') a = (long long)va_arg(ap, int);
			break;
		}
	}
	va_end(ap);
	if (ntok < MAXTOK) tok[ntok] = (struct tok_s){fmt, a, 0};
	ntok++;
	return 0;
}
#endif
#include "evical.c"

#if !defined NV
# define NV 2
#endif
#define INPUTS X(freq) X(inter) X(count) XA(mon, NV) XA(dom, NV) XA(doy, NV) XA(wk, NV) XA(bh, NV) XA(bm, NV) XA(bs, NV) XA(pos, NV) XA(eas, NV) \
	XA(dww, NV) XA(dwn, NV) X(umsk) X(msim) X(mout) X(merr) X(mrun) X(present)
#include "sym.h"

#if defined RRUL
static struct rrulsp_s r2 = {.freq = FREQ_DAILY, .count = -1, .inter = 1U};
static rrul_key_t rd_cur = KEY_UNK;
static bool rd_unknown, rd_byday;
static int rd_cdcnt;

static void rd_key(const char *fmt)
{
	/* key of a ";KEY=..." format via the REAL keyword table */
	size_t z = 0U;
	while (fmt[1U + z] && fmt[1U + z] != '=' && z < 12U) z++;
	const struct rrul_key_cell_s *c = __evrrul_key(fmt + 1, z);
	rd_cur = c ? c->key : KEY_UNK;
	rd_byday = false;
	if (rd_cur == KEY_UNK) rd_unknown = true;
}

static void rd_lit(const char *s, size_t n)
{
	if (n == 7U && s[1] == 'B' && s[3] == 'D') {
		/* ";BYDAY=" */
		rd_key(s);
		rd_byday = true, rd_cdcnt = 0;
	} else if (rd_byday && n == 2U) {
		echs_wday_t w = snarf_wday(s);
		if (w != MIR && rd_cdcnt >= -53 && rd_cdcnt <= 53) ass_bi447(&r2.dow, pack_cd(CD(rd_cdcnt, w)));
		rd_cdcnt = 0;
	}
}

static void rd_chr(int c) { (void)c; }

static void rd_val(long long v)
{
	/* the parser's own range rules (snarf_rrule) */
	if (rd_byday) { rd_cdcnt = (int)v; return; }
	switch (rd_cur) {
	case KEY_INTER: if (v) r2.inter = (unsigned)v; break;
	case KEY_COUNT: if (v) r2.count = (int)v; break;
	case BY_MON: if (v && v <= 12) r2.mon = ass_bui31(r2.mon, (unsigned)v); break;
	case BY_HOUR: if (v >= 0 && v <= 24) r2.H = ass_bui31(r2.H, (unsigned)v); break;
	case BY_MIN: if (v >= 0 && v < 60) r2.M = ass_bui63(r2.M, (unsigned)v); break;
	case BY_SEC: if (v >= 0 && v <= 60) r2.S = ass_bui63(r2.S, (unsigned)v); break;
	case BY_MDAY: if (v && v < 32 && v > -32) r2.dom = ass_bi31(r2.dom, (int)v); break;
	case BY_WEEK: if (v && v <= 53 && v >= -53) r2.wk = ass_bi63(r2.wk, (int)v); break;
	case BY_YDAY: if (v && v <= 366 && v >= -366) ass_bi383(&r2.doy, (int)v); break;
	case BY_POS: if (v && v <= 366 && v >= -366) ass_bi383(&r2.pos, (int)v); break;
	default: break;
	}
}
#endif

void harness(void)
{
	sym_load();
#if defined RRUL
	struct rrulsp_s rr = {.freq = FREQ_DAILY, .count = -1, .inter = 1U, .until = echs_max_instant()};
	r2.until = echs_max_instant();
	ASSUME(in.freq >= FREQ_YEARLY && in.freq <= FREQ_SECONDLY && in.inter >= 1 && in.inter <= 1000 && in.count >= -1 && in.count <= 100000 && in.count != 0);
	rr.freq = (echs_freq_t)in.freq, rr.inter = (unsigned)in.inter, rr.count = (int)in.count;
	/* which BY-parts are present is a per-obligation constant */
	ASSUME(in.present == PRESENT);
	/* values exactly as the parser admits them (snarf_rrule's range checks) */
	for (unsigned i = 0; i < NV; i++) {
		ASSUME(in.mon[i] >= 1 && in.mon[i] <= 12 && in.bh[i] >= 0 && in.bh[i] <= 24 && in.bm[i] >= 0 && in.bm[i] <= 59 && in.bs[i] >= 0 && in.bs[i] <= 60);
		ASSUME(in.dom[i] >= -31 && in.dom[i] <= 31 && in.dom[i] != 0 && in.wk[i] >= -53 && in.wk[i] <= 53 && in.wk[i] != 0);
		ASSUME(in.doy[i] >= -366 && in.doy[i] <= 366 && in.doy[i] != 0 && in.pos[i] >= -366 && in.pos[i] <= 366 && in.pos[i] != 0);
		ASSUME(in.eas[i] >= -366 && in.eas[i] <= 366);
		ASSUME(in.dww[i] >= 1 && in.dww[i] <= 7 && in.dwn[i] >= -53 && in.dwn[i] <= 53);
		/* distinct values per list: the containers' representation is canonical for a SET of a given size,
		 * a value inserted twice leaves the 1-element set in its bitset form (compared field-wise below) */
		if (i > 0) {
			ASSUME(in.mon[i] != in.mon[i - 1] && in.dom[i] != in.dom[i - 1] && in.doy[i] != in.doy[i - 1] && in.wk[i] != in.wk[i - 1]);
			ASSUME(in.bh[i] != in.bh[i - 1] && in.bm[i] != in.bm[i - 1] && in.bs[i] != in.bs[i - 1] && in.pos[i] != in.pos[i - 1]);
			ASSUME(in.dww[i] != in.dww[i - 1] || in.dwn[i] != in.dwn[i - 1]);
		}
		if (PRESENT & 1) rr.mon = ass_bui31(rr.mon, (unsigned)in.mon[i]);
		if (PRESENT & 2) rr.dom = ass_bi31(rr.dom, (int)in.dom[i]);
		if (PRESENT & 4) ass_bi383(&rr.doy, (int)in.doy[i]);
		if (PRESENT & 8) rr.wk = ass_bi63(rr.wk, (int)in.wk[i]);
		if (PRESENT & 16) rr.H = ass_bui31(rr.H, (unsigned)in.bh[i]);
		if (PRESENT & 32) rr.M = ass_bui63(rr.M, (unsigned)in.bm[i]);
		if (PRESENT & 64) rr.S = ass_bui63(rr.S, (unsigned)in.bs[i]);
		if (PRESENT & 128) ass_bi383(&rr.pos, (int)in.pos[i]);
		if (PRESENT & 256) ass_bi447(&rr.dow, pack_cd(CD((int)in.dwn[i], (echs_wday_t)in.dww[i])));
	}
	send_rrul(1, &rr, 0U);
	r2.freq = rr.freq;
	CHECK(!rd_unknown, "every emitted key is one the parser knows");
	CHECK(r2.inter == rr.inter && r2.count == rr.count, "INTERVAL and COUNT survive");
	CHECK(r2.mon == rr.mon, "BYMONTH survives");
	CHECK(r2.H == rr.H, "BYHOUR survives");
	CHECK(r2.M == rr.M, "BYMINUTE survives (values >= 31 included)");
	CHECK(r2.S == rr.S, "BYSECOND survives (values >= 31 included)");
	CHECK(r2.dom.pos == rr.dom.pos && r2.dom.neg == rr.dom.neg, "BYMONTHDAY survives");
	CHECK(r2.wk.pos == rr.wk.pos && r2.wk.neg == rr.wk.neg, "BYWEEKNO survives");
	for (unsigned i = 0; i < 12U; i++) {
		CHECK(r2.doy.pos[i] == rr.doy.pos[i] && r2.doy.neg[i] == rr.doy.neg[i], "BYYEARDAY survives");
		CHECK(r2.pos.pos[i] == rr.pos.pos[i] && r2.pos.neg[i] == rr.pos.neg[i], "BYSETPOS survives");
	}
	for (unsigned i = 0; i < 14U; i++) {
		CHECK(r2.dow.pos[i] == rr.dow.pos[i] && r2.dow.neg[i] == rr.dow.neg[i], "BYDAY survives");
	}
	WITNESS_POINT();
#elif defined TASKNUM
	static struct echs_task_s T;
	static struct ical_vevent_s ve;
	/* stored forms: umask 0..0777 or unset (01000 = 0 - 1 in 10 bits); max-simul 0..62 or unset (63) */
	ASSUME(in.umsk >= 0 && in.umsk <= 01000 && in.msim >= 0 && in.msim <= 63);
	ASSUME((in.mout == 0 || in.mout == 1) && (in.merr == 0 || in.merr == 1) && (in.mrun == 0 || in.mrun == 1));
	T.oid = 0U, T.umsk = in.umsk == 01000 ? 01777 : (unsigned)in.umsk, T.max_simul = (unsigned)in.msim;
	T.run_as.u = NUMMAPSTR_NAN, T.run_as.g = NUMMAPSTR_NAN;
	T.mailout = (unsigned)in.mout, T.moutset = 1, T.mailerr = (unsigned)in.merr, T.merrset = 1, T.mailrun = (unsigned)in.mrun, T.mrunset = 1;
	send_task(1, &T);
	ve.t.oid = 7U;
	char txt[16];
	for (unsigned i = 0; i < MAXTOK; i++) {
		if (i >= ntok) break;
		const char *f = tok[i].fmt;
		if (f == NULL || f[0] != 'X') continue;
		/* render the number the way the format says, then let the REAL field parser read it */
		size_t n = 0U;
		unsigned long long v = (unsigned long long)tok[i].arg;
		const bool oct = strchr(f, 'o') != NULL;
		if (oct) txt[n++] = '0';
		char dg[12];
		unsigned nd = 0U;
		do { dg[nd++] = (char)('0' + v % (oct ? 8U : 10U)); v /= oct ? 8U : 10U; } while (v && nd < 11U);
		while (nd) txt[n++] = dg[--nd];
		txt[n] = '\0';
		size_t kz = 0U;
		while (f[kz] && f[kz] != ':') kz++;
		const struct ical_fld_cell_s *c = __evical_fld(f, kz);
		CHECK(c != NULL, "every emitted field name is one the parser knows");
		if (c != NULL) (void)snarf_fld(&ve, c->fld, f + kz, txt, txt + n);
	}
	struct echs_task_s *t2 = make_task(&ve);
	CHECK(t2 != NULL, "task read back");
	if (t2 != NULL) {
		CHECK(t2->umsk == T.umsk || (in.umsk == 01000 && t2->umsk > 0777U), "umask survives (unset stays unset)");
		CHECK(t2->max_simul == T.max_simul, "max-simul survives (unset stays unset)");
		CHECK(t2->mailout == T.mailout && t2->mailerr == T.mailerr && t2->mailrun == T.mailrun, "mail flags survive");
	}
	WITNESS_POINT();
#endif
}
