"""C05 -- tasks are read as written and survive serialisation unchanged (token level)."""
NOTE = ("send_rrul/send_cd/send_task of src/evical.c executed symbolically with the buffered writer pre-empted by recorders "
        "(format string + integer argument per call); the recorded tokens are read back with the real keyword tables "
        "(__evrrul_key, __evical_fld), the real field parser snarf_fld and make_task()'s corrections. Rule: which of the nine "
        "BY-parts are present is symbolic, each with NV symbolic values over the parser's admitted ranges, plus INTERVAL/COUNT.")
ASSUMPTIONS = ["printf(\"%d\") and strtol are mutually inverse (the character-level formatting/scanning is not executed)",
               "BY-lists of NV values; the character-level text round trip (escapes, folding, 1 KiB lines), TZID/SCALE, EXDATE/EXRULE serialisation and echsq massage() are outside",
               "stream position (DTSTART/COUNT of a partly consumed stream): see C16 restart consistency"]
UW = {'bui31_next.*': 33, 'bi31_next.*': 34, 'bui63_next.*': 65, 'bi63_next.*': 66, 'bi383_next.*': 1, 'ass_bi383.*': 1, 'ass_int383.*': 4,
      'bi447_next.*': 1, 'ass_bi447.*': 1, 'ass_int447.*': 4, 'memmove.*': 4, 'memcpy.*': 73, 'memset.*': 30, 'harness.*': 50, 'fdprintf.*': 25, 'rd_key.*': 14,
      'strchr.*': 24, 'strncmp.*': 12, 'strcmp.*': 12, 'send_rrul.*': 4, 'sym_load.*': 4, 'strtol.*': 11, 'echs_instant_fixup.*': 3}
def ob(name, defs, **kw):
    o = dict(name=name, src='h_seria.c', defs=defs + ['WORD_MEMOPS'], units=['src/bitint.c'], incl=['src/evical.c'], replay_units='all', unwind=5, unwindset=dict(UW),
             solver='minisat', slice_formula=True, timeout=1500, mem_gb=16, checks=['--bounds-check'],
             allow_nobody=['echs_toid_gen', 'echs_instant_utc', 'echs_tzob_offs', 'echs_instant_loc', 'obint_name', 'strndup'],
             stubs=['fdprnt.h pre-empted by token recorders', 'reference strtol/memchr, word-wise mem* (harness/common/libc_models.h)'])
    o.update(kw)
    return o
OBLIGATIONS = [
    # PRESENT bits: 1 BYMONTH 2 BYMONTHDAY 4 BYYEARDAY 8 BYWEEKNO 16 BYHOUR 32 BYMINUTE 64 BYSECOND 128 BYSETPOS 256 BYDAY
    ob('rrule_time_parts_nv2', ['RRUL', 'NV=2', 'PRESENT=112'], enc=['send_rrul', '__evrrul_key'], sym='two values each of BYHOUR, BYMINUTE, BYSECOND; INTERVAL, COUNT, FREQ', bounds='BYHOUR+BYMINUTE+BYSECOND, two values each'),
    ob('rrule_date_parts_nv2', ['RRUL', 'NV=2', 'PRESENT=11'], enc=['send_rrul', '__evrrul_key'], sym='two values each of BYMONTH, BYMONTHDAY, BYWEEKNO; INTERVAL, COUNT, FREQ', bounds='BYMONTH+BYMONTHDAY+BYWEEKNO, two values each'),
    ob('rrule_setpos_yearday_nv2', ['RRUL', 'NV=2', 'PRESENT=132'], enc=['send_rrul', '__evrrul_key'], sym='two values each of BYYEARDAY, BYSETPOS', bounds='BYYEARDAY+BYSETPOS, two values each'),
    ob('rrule_byday_nv2', ['RRUL', 'NV=2', 'PRESENT=256'], enc=['send_rrul', 'send_cd', 'snarf_wday'], sym='two BYDAY entries with ordinals', bounds='BYDAY, two entries', timeout=2400),
    ob('task_numeric_fields', ['TASKNUM'], enc=['send_task', 'snarf_fld', 'make_task', '__evical_fld'], sym='umask, max-simul, mail flags', bounds='all stored values incl. unset', tiers=('thorough',), timeout=3400),
]
