"""C16 -- occurrence streams are ordered and bounded for every rule, across internal refills."""
NOTE = ("refill()/next_evrrul() of src/evical.c executed symbolically with the occurrence cache reduced to 4 (hook "
        "ECHSE_VERIF_CCH) so that NPOP pops cross two or three refill boundaries; DTSTART and list values symbolic. "
        "Asserted: strictly increasing, >= DTSTART, <= UNTIL, <= COUNT in total, peek purity, and RESTART consistency: "
        "the popped sequence equals what one direct filler call asking for all NPOP occurrences returns (the seed kept "
        "at a refill boundary restarts the rule without drift).")
ASSUMPTIONS = ["cache of 4 instead of 64 (hook); refill logic is symbolic in GRP_CCH_OFF", "UTC, Gregorian scale (TZID offsets: C07; scales: C15)",
               "day-of-month values 1..28 (month-length effects are C01's subject)"]
U = ['src/evrrul.c', 'src/bitint.c', 'src/scale.c', 'src/instant.c']
FN = {1: 'rrul_fill_yly', 2: 'rrul_fill_mly', 3: 'rrul_fill_wly', 4: 'rrul_fill_dly', 5: 'rrul_fill_Hly', 6: 'rrul_fill_Mly', 7: 'rrul_fill_Sly'}
def ob(name, freq, defs, npop=6, **kw):
    d = ['FREQ=%d' % freq, 'NPOP=%d' % npop, 'ECHSE_VERIF_CCH=4U'] + defs
    uws = {'bui31_next.*': 33, 'bi31_next.*': 34, 'bui63_next.*': 65, 'bi63_next.*': 66, 'bi383_next.*': 1, 'ass_bi383.*': 1, 'ass_int383.*': 3,
           'bi447_next.*': 1, 'ass_bi447.*': 1, 'memcpy.*': 73, 'memmove.*': 3, 'memset.*': 25, 'make_enum.*': 4, 'harness.*': npop + 2,
           'refill.*': 6, 'clr_poss.*': 2, 'shift.*': 3, 'mjd2ht.*': 2, 'fill_mly_ymd.*': 4, FN[freq] + '.*': npop + 4,
           'c16_sort.*': 6, 'echs_instant_fixup.*': 3, 'echs_instant_add.*': 3}
    o = dict(name=name, src='h_strm.c', defs=d, units=U, incl=['src/evical.c'], replay_units='all', unwind=4, unwindset=uws,
             solver='minisat', slice_formula=True, timeout=1500, mem_gb=8, extra=['--max-field-sensitivity-array-size', '4'],
             checks=['--bounds-check'], replace_calls={'echs_instant_sort': 'c16_sort'}, allow_nobody=['echs_tzob_shift', 'echs_instant_utc', 'echs_instant_loc'],
             enc=['refill', 'next_evrrul', FN[freq]], sym='DTSTART, list values, COUNT/UNTIL, position of the peek',
             bounds='%d pops over a cache of 4 (%d refills); %s' % (npop, (npop + 2) // 3, ' '.join(defs)),
             outside='the real cache size 64; TZID and non-Gregorian streams; streams followed for thousands of occurrences',
             stubs=['hook ECHSE_VERIF_CCH=4', 'echs_instant_sort replaced by a 3-element insertion sort (its correctness for n <= 5 is C20)', 'word-wise memcpy/memmove/memset', 'stream object initialised as __make_evrrul() does for one UTC Gregorian rule'])
    if freq == 4:
        # rrul_fill_dly: exact bounds per loop (list scans, time-of-day enumeration, month carry, main loop); checked by the unwinding assertions
        nt = 1
        for d_ in defs:
            if d_.startswith('NH=') or d_.startswith('NM='):
                nt *= int(d_[3:])
        o['unwindset'].update({'rrul_fill_dly.0': 3, 'rrul_fill_dly.1': 3, 'rrul_fill_dly.2': 3, 'rrul_fill_dly.3': 3, 'rrul_fill_dly.4': 3, 'rrul_fill_dly.5': 3,
                               'rrul_fill_dly.6': nt + 2, 'rrul_fill_dly.7': 3, 'rrul_fill_dly.8': npop + 4})
    if freq == 5:
        o['unwindset'].update({'rrul_fill_Hly.8': 2, 'rrul_fill_Hly.9': 3, 'rrul_fill_Hly.10': 3})
    if freq == 7:
        o['unwindset'].update({'rrul_fill_Sly.12': 3})
    o['unwindset'].update(kw.pop('uw', {}))
    o.update(kw)
    return o
Q = ('quick', 'thorough'); T = ('thorough',)
def small(name, freq, defs, npop=3, **kw):
    """cache of 2: every refill keeps one occurrence as the seed and hands out one, so n pops = n refills"""
    o = ob(name, freq, defs, npop=npop, **kw)
    o['defs'] = [d if not d.startswith('ECHSE_VERIF_CCH') else 'ECHSE_VERIF_CCH=2U' for d in o['defs']]
    o['bounds'] = '%d pops over a cache of 2 (%d refills); ' % (npop, npop) + ' '.join(defs)
    o['stubs'] = ['hook ECHSE_VERIF_CCH=2'] + o['stubs'][1:]
    return o
OBLIGATIONS = [
    small('secondly_restart_c2_p2', 7, ['RESTART', 'EXPECT_REFILLS'], npop=2, timeout=800),
    small('daily_restart_c2_p2', 4, ['RESTART', 'EXPECT_REFILLS'], npop=2, timeout=800),
    small('daily_count_c2_p2', 4, ['WITH_COUNT'], npop=2, timeout=800),
    small('secondly_restart_c2', 7, ['RESTART', 'EXPECT_REFILLS'], timeout=3400, tiers=T),
    small('hourly_restart_c2', 5, ['RESTART', 'EXPECT_REFILLS'], timeout=3400, tiers=T),
    small('daily_count_c2', 4, ['WITH_COUNT'], timeout=3400, tiers=T),
    small('hourly_restart_c2_p2', 5, ['RESTART', 'EXPECT_REFILLS'], npop=2, timeout=3400, tiers=T),
    small('weekly_restart_c2_p2', 3, ['RESTART', 'EXPECT_REFILLS'], npop=2, timeout=3400, tiers=T, mem_gb=20),
    small('monthly_bymonthday1_restart_c2_p2', 2, ['RESTART', 'NDOM=1', 'EXPECT_REFILLS'], npop=2, timeout=3400, tiers=T, mem_gb=24),
    small('monthly_shift3_restart_c2_p2', 2, ['RESTART', 'SHIFTD=3', 'EXPECT_REFILLS'], npop=2, timeout=3400, tiers=T, mem_gb=24),
    small('yearly_byhour2_shiftm5_c2_p3', 1, ['RESTART', 'NH=2', 'SHIFTD=-5', 'EXPECT_REFILLS'], npop=3, timeout=3400, tiers=T, mem_gb=30,
          uw={'rrul_fill_yly.0': 3, 'rrul_fill_yly.1': 3, 'rrul_fill_yly.2': 3, 'rrul_fill_yly.3': 3, 'rrul_fill_yly.4': 3, 'rrul_fill_yly.5': 3, 'rrul_fill_yly.6': 4, 'rrul_fill_yly.7': 3, 'rrul_fill_yly.8': 4, 'rrul_fill_yly.9': 7,
              'shift.*': 9, 'fill_yly_ymd.*': 4, 'fill_yly_ymd_all_d.*': 4, 'fill_yly_ymd_all_m.*': 14, 'fill_yly_md_all.*': 33, 'fill_yly_yd_all.*': 368, 'fill_yly_yd.*': 4, 'fill_yly_ywd.*': 4, 'fill_yly_ycw.*': 4, 'fill_yly_ymcw.*': 4, 'fill_yly_eastr.*': 2}),
    small('daily_until_c2_p2', 4, ['WITH_UNTIL'], npop=2, timeout=3400, tiers=T),
    ob('hourly_restart', 5, ['RESTART', 'EXPECT_REFILLS'], npop=5, tiers=T, timeout=3400),
    ob('daily_restart', 4, ['RESTART', 'EXPECT_REFILLS'], npop=5, tiers=T, timeout=3400),
    ob('daily_byhour2_restart', 4, ['RESTART', 'NH=2', 'EXPECT_REFILLS'], npop=5, tiers=T, timeout=3400),
    ob('daily_until', 4, ['WITH_UNTIL'], npop=5, tiers=T, timeout=3400),
    ob('weekly_restart', 3, ['RESTART', 'EXPECT_REFILLS'], npop=5, tiers=T, timeout=3400, mem_gb=20),
    ob('monthly_bymonthday1_restart', 2, ['RESTART', 'NDOM=1', 'EXPECT_REFILLS'], npop=5, tiers=T, mem_gb=24, timeout=3400),
    ob('monthly_shift3_restart', 2, ['RESTART', 'SHIFTD=3', 'EXPECT_REFILLS'], npop=5, tiers=T, mem_gb=24, timeout=3400),
    ob('daily_interval2_restart', 4, ['RESTART', 'INTER=2', 'EXPECT_REFILLS'], npop=5, tiers=T, timeout=3400),
]
