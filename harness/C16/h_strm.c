/* C16 (and the last clause of C01): occurrence streams are ordered and bounded
 * across cache refills.
 * Real code: src/evical.c (included textually): refill(), next_evrrul() with the
 * occurrence cache reduced to ECHSE_VERIF_CCH=4 (hook) so that NPOP pops cross
 * two or three refills; src/evrrul.c fillers, bitint, scale, instant, tzob.
 * The stream object is set up the way __make_evrrul() does for one rule.
 *   -DFREQ  -DINTER  -DNDOM -DNH -DNM (list lengths)  -DNPOP  -DWITH_COUNT -DWITH_UNTIL
 *   -DSHIFTD=<n> (SHIFT=n days)   -DRESTART: compare with one long direct fill */
#define WORD_MEMOPS
#include "libc_models.h"
#include "evical.c"

#if !defined NPOP
# define NPOP 6
#endif
#if !defined NDOM
# define NDOM 0
#endif
#if !defined NH
# define NH 0
#endif
#if !defined NM
# define NM 0
#endif
#if !defined INTER
# define INTER 1
#endif
#define V(n)	((n) ? (n) : 1)
#define INPUTS X(y) X(m) X(d) X(H) X(M) X(S) XA(dom, V(NDOM)) XA(bh, V(NH)) XA(bm, V(NM)) X(count) X(uy) X(um) X(ud) X(npeek)
#include "sym.h"

static struct evrrul_s STRM;

#if defined VERIF_CBMC
/* UTC streams carry zone 0, for which src/tzob.c finds no zone file and answers offset 0
 * (the native replay links the real one) */
int echs_tzob_offs(echs_tzob_t z, echs_instant_t i, int x) { (void)z; (void)i; (void)x; return 0; }
#endif

/* echs_instant_sort() (WikiSort) is C20's subject, where it is shown to sort every array of
 * up to 5 (thorough: 8) instants; here refill() hands it at most GRP_CCH_OFF-1 <= 3 of them,
 * and it is cut (goto-instrument --replace-calls) for this insertion sort under the same
 * order echs_instant_lt_p -- symbolic lengths make symex walk all of WikiSort otherwise */
void c16_sort(echs_instant_t *restrict in, size_t nin)
{
	for (unsigned i = 1; i < GRP_CCH_OFF; i++) {
		for (unsigned j = i; j > 0; j--) {
			if (i < nin && echs_instant_lt_p(in[j], in[j - 1])) {
				echs_instant_t t = in[j];
				in[j] = in[j - 1], in[j - 1] = t;
			}
		}
	}
}

void harness(void)
{
	struct rrulsp_s rr = {.freq = (echs_freq_t)FREQ, .count = -1, .inter = INTER, .until = echs_max_instant()};
	sym_load();
#if defined FIXDATE
	/* quick-tier slice: the date of DTSTART is a constant (time of day symbolic) */
	in.y = FIXDATE / 10000, in.m = FIXDATE / 100 % 100, in.d = FIXDATE % 100;
#endif
#if defined FIXYM
	/* quick-tier slice: year and month of DTSTART are constants (day and time of day symbolic) */
	in.y = FIXYM / 100, in.m = FIXYM % 100;
#endif
	ASSUME(in.y >= 1902 && in.y <= 2090 && in.m >= 1 && in.m <= 12 && in.d >= 1 && in.d <= 28);
	ASSUME(in.H >= 0 && in.H < 24 && in.M >= 0 && in.M < 60 && in.S >= 0 && in.S < 60);
	echs_instant_t D = {.u = 0U};
	D.y = in.y, D.m = in.m, D.d = in.d, D.H = in.H, D.M = in.M, D.S = in.S, D.ms = ECHS_ALL_SEC;
	for (unsigned i = 0; i < NDOM; i++) {
		ASSUME(in.dom[i] >= 1 && in.dom[i] <= 28);
		if (i > 0) ASSUME(in.dom[i] != in.dom[i - 1]);
		rr.dom = ass_bi31(rr.dom, (int)in.dom[i]);
	}
	for (unsigned i = 0; i < NH; i++) {
		ASSUME(in.bh[i] >= 0 && in.bh[i] <= 23);
		if (i > 0) ASSUME(in.bh[i] != in.bh[i - 1]);
		rr.H = ass_bui31(rr.H, (unsigned)in.bh[i]);
	}
	for (unsigned i = 0; i < NM; i++) {
		ASSUME(in.bm[i] >= 0 && in.bm[i] <= 59);
		if (i > 0) ASSUME(in.bm[i] != in.bm[i - 1]);
		rr.M = ass_bui63(rr.M, (unsigned)in.bm[i]);
	}
#if defined SHIFTD
	rr.shift = (echs_shift_t)((SHIFTD) * 65536);
#endif
	int cnt = -1;
#if defined WITH_COUNT
	ASSUME(in.count >= 1 && in.count <= NPOP + 1);
	cnt = (int)in.count;
	rr.count = cnt;
#endif
	echs_instant_t U = echs_max_instant();
#if defined WITH_UNTIL
	ASSUME(in.uy >= in.y && in.uy <= 2091 && in.um >= 1 && in.um <= 12 && in.ud >= 1 && in.ud <= 28);
	U = (echs_instant_t){.u = 0U};
	U.y = in.uy, U.m = in.um, U.d = in.ud, U.H = 12, U.ms = ECHS_ALL_SEC;
	rr.until = U;
#endif
	/* what __make_evrrul() sets up for one rule, UTC, Gregorian */
	STRM.class = &evrrul_cls;
	STRM.cal = SCALE_GREGORIAN;
	STRM.zon = 0U, STRM.pof = 0;
	STRM.e = (echs_event_t){.from = D, .oid = 9U};
	STRM.rrul = rr;
	STRM.seq = 0U, STRM.ref = 1U, STRM.rdi = 0U, STRM.ncch = 0U;

#if defined RESTART
	/* reference: one direct fill asking for all NPOP at once (own buffer) */
	static echs_instant_t ref[2U * NPOP + GRP_CCH_OFF];
	for (unsigned j = 0; j < NPOP; j++) ref[j] = D;
	size_t nref;
	{
		struct rrulsp_s r2 = rr;
# if FREQ == 1
		nref = rrul_fill_yly(ref, NPOP, &r2);
# elif FREQ == 2
		nref = rrul_fill_mly(ref, NPOP, &r2);
# elif FREQ == 3
		nref = rrul_fill_wly(ref, NPOP, &r2);
# elif FREQ == 4
		nref = rrul_fill_dly(ref, NPOP, &r2);
# elif FREQ == 5
		nref = rrul_fill_Hly(ref, NPOP, &r2);
# elif FREQ == 6
		nref = rrul_fill_Mly(ref, NPOP, &r2);
# else
		nref = rrul_fill_Sly(ref, NPOP, &r2);
# endif
	}
#endif
	echs_instant_t prev = {.u = 0U};
	unsigned int got = 0U;
	bool ended = false;
	ASSUME(in.npeek >= 0 && in.npeek < NPOP);
	for (unsigned k = 0; k < NPOP; k++) {
		if (k == (unsigned)in.npeek) {
			/* a peek anywhere never consumes */
			echs_event_t pe = next_evrrul((echs_evstrm_t)&STRM, false);
			echs_event_t pe2 = next_evrrul((echs_evstrm_t)&STRM, false);
			CHECK(pe.from.u == pe2.from.u, "peeking twice shows the same occurrence");
		}
		echs_event_t e = next_evrrul((echs_evstrm_t)&STRM, true);
		if (echs_event_0_p(e)) {
			ended = true;
		} else {
			CHECK(!ended, "nothing after end of stream");
			CHECK(!echs_instant_lt_p(e.from, D), "no occurrence before DTSTART");
			CHECK(!echs_instant_lt_p(U, e.from), "no occurrence after UNTIL");
			CHECK(got == 0U || echs_instant_lt_p(prev, e.from), "occurrences strictly increase across refills");
			CHECK(cnt < 0 || got < (unsigned)cnt, "never more than COUNT occurrences in total");
#if defined RESTART
			CHECK(got < nref && ref[got < NPOP ? got : 0].u == e.from.u, "popping through refills yields the instants one long fill yields");
#endif
			prev = e.from;
			got++;
		}
	}
#if defined RESTART
	CHECK(got == nref || (got == NPOP && nref >= NPOP), "stream and direct fill have the same length");
#endif
#if defined EXPECT_REFILLS
	/* vacuity guard: the pops really crossed refill boundaries */
	if (got == NPOP) WITNESS_POINT();
#else
	WITNESS_POINT();
#endif
}
