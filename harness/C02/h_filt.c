/* C02: EXDATE/EXRULE remove, RDATE adds.
 * Real code: src/evfilt.c (included textually): next_evfilt, make_evfilt;
 * src/range.h Allen relations; src/event.h echs_event_range.  Occurrence stream E
 * and exception stream X are array-backed with symbolic events; both carry the
 * event's duration, as make_task() builds them.
 *
 * echs_event_range() calls echs_instant_add(), a division-heavy kernel that is
 * C08's subject.  For the instant domain this harness uses (March 2024, day
 * 1..20, whole hours, durations of whole hours up to 47 h, or all-day dates with
 * durations of whole days) obligation -DADD_EQUIV proves the real
 * echs_instant_add equal to the 6-line model below; the filter obligations then
 * link the model instead of src/instant.c. */
#if defined ADD_EQUIV
# include <stdbool.h>
# include "instant.h"
#else
# include "evfilt.c"
#endif

#if !defined NE
# define NE 3
#endif
#if !defined NX
# define NX 3
#endif
#if !defined NOPS
# define NOPS 6
#endif
#define ARR_MAX (NE > NX ? NE : NX)
#define INPUTS X(ne) X(nx) XA(de, NE) XA(he, NE) XA(dx, NX) XA(hx, NX) X(dur) X(allday) XA(op, NOPS)
#include "sym.h"

#define MS_H	3600000LL
#define MS_D	86400000LL

static echs_instant_t mki(long long d, long long h, bool allday)
{
	echs_instant_t i = {.u = 0U};
	i.y = 2024, i.m = 3, i.d = (unsigned)d;
	if (allday) {
		i.H = ECHS_ALL_DAY;
	} else {
		i.H = (unsigned)h, i.ms = ECHS_ALL_SEC;
	}
	return i;
}

/* the model: whole hours (or whole days) inside March 2024 */
static echs_instant_t add_model(echs_instant_t b, echs_idiff_t a)
{
	if (a.d == 0) return b;
	if (echs_instant_all_day_p(b)) {
		b.d += (unsigned)(a.d / MS_D);
		return b;
	}
	unsigned h = b.H + (unsigned)(a.d / MS_H);
	if (h >= 48U) h -= 48U, b.d += 2U;
	else if (h >= 24U) h -= 24U, b.d += 1U;
	b.H = h;
	return b;
}

#if defined ADD_EQUIV
void harness(void)
{
	sym_load();
	ASSUME(in.allday == 0 || in.allday == 1);
	ASSUME(in.de[0] >= 1 && in.de[0] <= 20 && in.he[0] >= 0 && in.he[0] <= 23 && in.dur >= 0 && in.dur <= 47);
	if (in.allday) ASSUME(in.dur <= 9);
	const echs_instant_t b = mki(in.de[0], in.he[0], in.allday);
	const echs_idiff_t a = {in.dur * (in.allday ? MS_D : MS_H)};
	CHECK(echs_instant_add(b, a).u == add_model(b, a).u, "model equals echs_instant_add on the harness's instant domain");
	CHECK(echs_instant_add(echs_nul_instant(), echs_nul_idiff()).u == 0U, "adding nothing to the nul instant is the nul instant");
	WITNESS_POINT();
}
#else
# include "arrstrm.h"
#if defined VERIF_CBMC
/* natively (replay) the real src/instant.c is linked instead */
echs_instant_t echs_instant_add(echs_instant_t b, echs_idiff_t a) { return add_model(b, a); }
#endif

static struct arrstrm_s E, X;

void harness(void)
{
	sym_load();
	ASSUME(in.allday == 0 || in.allday == 1);
#if defined FIX_ALLDAY
	/* date vs date-time is a per-obligation constant */
	ASSUME(in.allday == FIX_ALLDAY);
	const bool ad = FIX_ALLDAY;
#else
	const bool ad = in.allday;
#endif
	ASSUME(in.ne >= 0 && in.ne <= NE && in.nx >= 1 && in.nx <= NX);
	arr_init(&E, (unsigned)in.ne);
	arr_init(&X, (unsigned)in.nx);
	/* duration: zero, or positive but shorter than the gap to the next occurrence */
	ASSUME(in.dur >= 0 && in.dur <= (ad ? 9 : 47));
	const echs_idiff_t dur = {in.dur * (ad ? MS_D : MS_H)};
	/* time line position in hours (days for all-day) */
#define POS(d, h)	(ad ? (d) : (d) * 24 + (h))
	for (unsigned k = 0; k < NE; k++) {
		ASSUME(in.de[k] >= 1 && in.de[k] <= 20 && in.he[k] >= 0 && in.he[k] <= 23);
		if (ad) ASSUME(in.he[k] == 0);
		if (k > 0) ASSUME(POS(in.de[k], in.he[k]) > POS(in.de[k - 1], in.he[k - 1]) + in.dur);
		E.ev[k] = (echs_event_t){.from = mki(in.de[k], in.he[k], ad), .dur = dur, .oid = 7U};
	}
	for (unsigned k = 0; k < NX; k++) {
		ASSUME(in.dx[k] >= 1 && in.dx[k] <= 20 && in.hx[k] >= 0 && in.hx[k] <= 23);
		if (ad) ASSUME(in.hx[k] == 0);
		if (k > 0) ASSUME(POS(in.dx[k], in.hx[k]) > POS(in.dx[k - 1], in.hx[k - 1]));
		X.ev[k] = (echs_event_t){.from = mki(in.dx[k], in.hx[k], ad), .dur = dur, .oid = 7U};
	}
#if defined KF_C02_2
	/* known finding C02-2: an exception that names no occurrence but lies within
	 * one duration of an occurrence removes that occurrence */
	for (unsigned j = 0; j < NE; j++) for (unsigned k = 0; k < NX; k++) {
		if (j < (unsigned)in.ne && k < (unsigned)in.nx) {
			long long df = POS(in.de[j], in.he[j]) - POS(in.dx[k], in.hx[k]);
			ASSUME(df == 0 || df >= in.dur || -df >= in.dur);
		}
	}
#elif defined KFONLY_C02_2
	ASSUME(in.ne == 1 && in.nx == 1 && in.dur > 0);
	{
		long long df = POS(in.de[0], in.he[0]) - POS(in.dx[0], in.hx[0]);
		ASSUME(df != 0 && df < in.dur && -df < in.dur);
	}
#endif
	echs_evstrm_t f = make_evfilt((echs_evstrm_t)&E, (echs_evstrm_t)&X);
	CHECK(f != NULL && f != (echs_evstrm_t)&E, "a filter is built when there are exceptions");
	if (f == NULL || f == (echs_evstrm_t)&E) return;

	/* expected: the occurrences whose start no exception names, in order */
	bool keep[NE];
	unsigned int nw = 0U;
	for (unsigned j = 0; j < NE; j++) {
		bool named = false;
		for (unsigned k = 0; k < NX; k++) {
			named |= k < (unsigned)in.nx && in.dx[k] == in.de[j] && in.hx[k] == in.he[j];
		}
		keep[j] = j < (unsigned)in.ne && !named;
		nw += keep[j];
	}
	unsigned int got = 0U, cur = 0U;	/* cur: index of the next kept occurrence */
	bool have_peek = false;
	echs_event_t peeked = {0};
	for (unsigned o = 0; o < NOPS; o++) {
		ASSUME(in.op[o] == 0 || in.op[o] == 1);
		echs_event_t e = in.op[o] ? next_evfilt(f, true) : next_evfilt(f, false);
		/* advance to the next kept occurrence */
		for (unsigned j = 0; j < NE; j++) {
			if (cur == j && j < NE && !keep[j]) cur++;
		}
		if (got < nw) {
			CHECK(!echs_event_0_p(e), "an occurrence that no exception names is never dropped");
			CHECK(cur < NE && echs_instant_eq_p(e.from, E.ev[cur < NE ? cur : 0].from), "occurrences are exactly those not named by an exception, in order");
		} else {
			CHECK(echs_event_0_p(e), "an excluded occurrence is never delivered; the stream ends after the last kept one");
		}
		if (have_peek) {
			CHECK(e.from.u == peeked.from.u, "peek does not consume");
		}
		have_peek = !in.op[o];
		peeked = e;
		if (in.op[o] && !echs_event_0_p(e)) got++, cur++;
		CHECK(!arr_use_after_free, "no stream is used after it was freed");
	}
	WITNESS_POINT();
}
#endif
