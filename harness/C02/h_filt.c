/* C02: EXDATE/EXRULE remove, RDATE adds.
 * Real code: src/evfilt.c (included textually): next_evfilt, make_evfilt;
 * src/range.h Allen relations; echs_event_range -> echs_instant_add
 * (src/instant.c).  Occurrence stream E and exception stream X are
 * array-backed with symbolic events; both carry the event's duration, as
 * make_task() builds them. */
#include "evfilt.c"

#if !defined NE
# define NE 3
#endif
#if !defined NX
# define NX 3
#endif
#if !defined NOPS
# define NOPS 6
#endif
#define ARR_MAX (NE > NX ? NE : NX)
#define INPUTS X(ne) X(nx) XA(te, NE) XA(tx, NX) X(dur) X(allday) XA(op, NOPS)
#include "sym.h"
#include "arrstrm.h"

void echs_evstrm_seria(int w, echs_const_evstrm_t s) { (void)w; (void)s; }

/* instants of Feb/Mar 2024: t counts seconds from 2024-02-28T00:00:00, or
 * days from 2024-02-27 for all-day events */
static echs_instant_t mkt(long long t, bool allday)
{
	echs_instant_t i = {.u = 0U};
	i.y = 2024, i.m = 2;
	if (allday) {
		i.d = 27 + (unsigned)t;
		i.H = ECHS_ALL_DAY;
	} else {
		i.d = 28 + (unsigned)(t / 86400);
		i.H = (unsigned)(t % 86400 / 3600), i.M = (unsigned)(t % 3600 / 60), i.S = (unsigned)(t % 60);
		i.ms = ECHS_ALL_SEC;
	}
	return echs_instant_fixup(i);
}

void harness(void)
{
	struct arrstrm_s E, X;
	sym_load();
	ASSUME(in.allday == 0 || in.allday == 1);
	const bool ad = in.allday;
	const long long unit = ad ? 86400000LL : 1000LL;
	const long long tmax = ad ? 6 : 3 * 86400 - 1;
	ASSUME(in.ne >= 0 && in.ne <= NE && in.nx >= 1 && in.nx <= NX);
	arr_init(&E, (unsigned)in.ne);
	arr_init(&X, (unsigned)in.nx);
	/* duration: zero, or positive but shorter than the gap to the next occurrence */
	ASSUME(in.dur >= 0 && in.dur <= tmax);
	const echs_idiff_t dur = {in.dur * unit};
	for (unsigned k = 0; k < NE; k++) {
		ASSUME(in.te[k] >= 0 && in.te[k] <= tmax);
		if (k > 0) ASSUME(in.te[k] > in.te[k - 1] + in.dur);
		E.ev[k] = (echs_event_t){.from = mkt(in.te[k], ad), .dur = dur, .oid = 7U};
	}
	for (unsigned k = 0; k < NX; k++) {
		ASSUME(in.tx[k] >= 0 && in.tx[k] <= tmax);
		if (k > 0) ASSUME(in.tx[k] > in.tx[k - 1]);
		X.ev[k] = (echs_event_t){.from = mkt(in.tx[k], ad), .dur = dur, .oid = 7U};
	}
#if defined KF_C02_2
	/* known finding C02-2: an exception that names no occurrence but lies within
	 * one duration of an occurrence removes that occurrence */
	for (unsigned j = 0; j < NE; j++) for (unsigned k = 0; k < NX; k++) {
		if (j < (unsigned)in.ne && k < (unsigned)in.nx) {
			long long df = in.te[j] - in.tx[k];
			ASSUME(df == 0 || df >= in.dur || -df >= in.dur);
		}
	}
#elif defined KFONLY_C02_2
	ASSUME(in.ne == 1 && in.nx == 1 && in.dur > 0 && in.te[0] != in.tx[0]);
	ASSUME(in.te[0] - in.tx[0] < in.dur && in.tx[0] - in.te[0] < in.dur);
#endif
	echs_evstrm_t f = make_evfilt((echs_evstrm_t)&E, (echs_evstrm_t)&X);
	CHECK(f != NULL && f != (echs_evstrm_t)&E, "a filter is built when there are exceptions");
	if (f == NULL || f == (echs_evstrm_t)&E) return;

	/* expected: the occurrences whose start no exception names, in order */
	long long want[NE];
	unsigned int nw = 0U;
	for (unsigned j = 0; j < NE; j++) {
		if (j < (unsigned)in.ne) {
			bool named = false;
			for (unsigned k = 0; k < NX; k++) {
				named |= k < (unsigned)in.nx && in.tx[k] == in.te[j];
			}
			if (!named) want[nw++] = in.te[j];
		}
	}
	unsigned int got = 0U;
	bool have_peek = false;
	echs_event_t peeked = {0};
	for (unsigned o = 0; o < NOPS; o++) {
		ASSUME(in.op[o] == 0 || in.op[o] == 1);
		echs_event_t e = in.op[o] ? echs_evstrm_pop(f) : echs_evstrm_next(f);
		if (got < nw) {
			CHECK(!echs_event_0_p(e), "an occurrence that no exception names is never dropped");
			CHECK(echs_instant_eq_p(e.from, mkt(want[got < NE ? got : 0], ad)), "occurrences are exactly those not named by an exception, in order");
		} else {
			CHECK(echs_event_0_p(e), "an excluded occurrence is never delivered; the stream ends after the last kept one");
		}
		if (have_peek) {
			CHECK(e.from.u == peeked.from.u, "peek does not consume");
		}
		have_peek = !in.op[o];
		peeked = e;
		if (in.op[o] && !echs_event_0_p(e)) got++;
		CHECK(!arr_use_after_free, "no stream is used after it was freed");
	}
	WITNESS_POINT();
}
