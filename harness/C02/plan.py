"""C02 -- EXDATE/EXRULE remove, RDATE adds: recurrence-set algebra (src/evfilt.c, src/range.h)."""
NOTE = ("next_evfilt/make_evfilt with the Allen relations and echs_event_range()->echs_instant_add executed symbolically "
        "over an occurrence stream and an exception stream (array-backed, symbolic instants, date and date-time forms, "
        "common symbolic duration from zero up to the gap) under an arbitrary peek/pop schedule. The union with RDATE is "
        "the mux of C03; the sorting of RDATE lists is the sort of C20.")
ASSUMPTIONS = ["occurrence and exception streams strictly increasing (what evrrul/evrdat streams deliver, see C16/C20)",
               "exceptions carry the event's duration, as make_task() builds them",
               "duration shorter than the gap between consecutive occurrences (as the property states)"]
FP = {'echs_evstrm_pop.function_pointer_call.1': ['arr_next'], 'echs_evstrm_next.function_pointer_call.1': ['arr_next'],
      'free_echs_evstrm.function_pointer_call.1': ['arr_free']}
def ob(name, defs, **kw):
    o = dict(name=name, src='h_filt.c', defs=defs, units=[], incl=['src/evfilt.c'], replay_units='all',
             unwind=5, solver='minisat', slice_formula=True, timeout=800, mem_gb=6, restrict_fp=FP,
             checks=['--bounds-check', '--pointer-check'], excludes=['C02-2'],
             enc=['next_evfilt', 'make_evfilt', 'echs_range_overlaps_p', 'echs_range_precedes_p', 'echs_event_range', 'echs_instant_lt_p'],
             sym='number and instants of occurrences and exceptions, duration, date vs date-time, peek/pop schedule',
             stubs=['array-backed echs_evstrm_class_s (harness/common/arrstrm.h)', 'indirect calls restricted to it',
                    'echs_instant_add replaced by a 6-line model proved equal to the real function on the harness domain (obligation add_model_equiv)'])
    o.update(kw)
    return o
OBLIGATIONS = [
    dict(name='add_model_equiv', src='h_filt.c', defs=['ADD_EQUIV'], units=['src/instant.c'], unwind=8, unwindset={'echs_instant_add.*': 4},
         solver='kissat', timeout=600, mem_gb=6, enc=['echs_instant_add'], sym='day, hour, duration, date vs date-time',
         bounds='March 2024 day 1..20, whole hours, durations 0..47 h (0..9 d for dates)'),
    # cost grows ~2.4x per unwinding of next_evfilt's check loop (CBMC re-merges the bit-field unions of every
    # instant at each join), so the loop bound is set to what the stream lengths need: NE + NX + 1
    # NX >= 2: cbmc 6.11 yields counterexamples in which the block-local range `r' of next_evfilt() reads as all-zero in the
    # `else if' after a `goto' left the block on the other branch (reproduced in a 50-line program; the native replay refutes
    # them), so these are thorough-tier only and end as inconclusive unless the imprecision does not strike
    ob('filt_1x2_ops3', ['NE=1', 'NX=2', 'NOPS=3'], unwindset={'next_evfilt.*': 4}, bounds='1 occurrence, <= 2 exceptions, 3 peek/pop calls', tiers=('thorough',)),
    ob('filt_2x1_ops3', ['NE=2', 'NX=1', 'NOPS=3'], unwindset={'next_evfilt.*': 4}, bounds='<= 2 occurrences, 1 exception, 3 peek/pop calls'),
    ob('filt_3x1_ops4', ['NE=3', 'NX=1', 'NOPS=4'], unwindset={'next_evfilt.*': 5}, bounds='<= 3 occurrences, 1 exception, 4 peek/pop calls', timeout=1200, mem_gb=16, tiers=('thorough',)),
    ob('filt_2x2_ops3', ['NE=2', 'NX=2', 'NOPS=3'], unwindset={'next_evfilt.*': 5}, bounds='<= 2 occurrences, <= 2 exceptions, 3 peek/pop calls', timeout=1200, mem_gb=16, tiers=('thorough',)),
    ob('filt_3x2_ops4', ['NE=3', 'NX=2', 'NOPS=4'], unwindset={'next_evfilt.*': 6}, bounds='<= 3 occurrences, <= 2 exceptions, 4 calls', tiers=('thorough',), timeout=3400, mem_gb=30),
    ob('filt_2x3_ops3', ['NE=2', 'NX=3', 'NOPS=3'], unwindset={'next_evfilt.*': 6}, bounds='<= 2 occurrences, <= 3 exceptions, 3 calls', tiers=('thorough',), timeout=3400, mem_gb=30),
    ob('kf_overlap_drops_unnamed', ['NE=1', 'NX=1', 'NOPS=2'], expect='kf', kf='C02-2', excludes=[], unwindset={'next_evfilt.*': 3},
       bounds='one occurrence, one exception within one duration of it'),
]
