"""C02 -- EXDATE/EXRULE remove, RDATE adds: recurrence-set algebra (src/evfilt.c, src/range.h)."""
NOTE = ("next_evfilt/make_evfilt with the Allen relations and echs_event_range()->echs_instant_add executed symbolically "
        "over an occurrence stream and an exception stream (array-backed, symbolic instants, date and date-time forms, "
        "common symbolic duration from zero up to the gap) under an arbitrary peek/pop schedule. The union with RDATE is "
        "the mux of C03; the sorting of RDATE lists is the sort of C20.")
ASSUMPTIONS = ["occurrence and exception streams strictly increasing (what evrrul/evrdat streams deliver, see C16/C20)",
               "exceptions carry the event's duration, as make_task() builds them",
               "duration shorter than the gap between consecutive occurrences (as the property states)"]
def ob(name, defs, **kw):
    o = dict(name=name, src='h_filt.c', defs=defs, units=['src/instant.c'], incl=['src/evfilt.c'], replay_units='all',
             unwind=8, unwindset={'echs_instant_add.*': 3, 'echs_instant_fixup.*': 3}, solver='cadical', timeout=900, mem_gb=10,
             checks=['--bounds-check', '--pointer-check'], excludes=['C02-2'],
             enc=['next_evfilt', 'make_evfilt', 'echs_range_overlaps_p', 'echs_range_precedes_p', 'echs_event_range', 'echs_instant_add'],
             sym='number and instants of occurrences and exceptions, duration, date vs date-time, peek/pop schedule',
             stubs=['array-backed echs_evstrm_class_s (harness/common/arrstrm.h)'])
    o.update(kw)
    return o
OBLIGATIONS = [
    ob('filt_2x2_ops4', ['NE=2', 'NX=2', 'NOPS=4'], bounds='<= 2 occurrences, <= 2 exceptions, 4 peek/pop calls'),
    ob('filt_3x3_ops6', ['NE=3', 'NX=3', 'NOPS=6'], bounds='<= 3 occurrences, <= 3 exceptions, 6 peek/pop calls'),
    ob('filt_4x4_ops8', ['NE=4', 'NX=4', 'NOPS=8'], bounds='<= 4 occurrences, <= 4 exceptions, 8 calls', tiers=('thorough',), timeout=3000, mem_gb=20),
    ob('kf_overlap_drops_unnamed', ['NE=1', 'NX=1', 'NOPS=2'], expect='kf', kf='C02-2', excludes=[],
       bounds='one occurrence, one exception within one duration of it'),
]
