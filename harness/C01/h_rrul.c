/* C01 / C09 / C16: RRULE expansion.
 * Real code: src/evrrul.c (included textually): rrul_fill_yly/mly/wly/dly/Hly/
 * Mly/Sly and everything they call; src/bitint.c, src/scale.c, src/instant.c.
 * The rule SHAPE is fixed per obligation by -D flags (which parts are present,
 * how many values each has); every VALUE (DTSTART, INTERVAL, list members, COUNT,
 * UNTIL) is a solver variable.  Oracle: oracle/rrule.h (membership predicate).
 *
 *   -DFREQ=1..7 (YEARLY..SECONDLY)  -DNMON -DNDOM -DNDOY -DNWK -DNDOW [-DDOW_ORD]
 *   -DNH -DNM -DNS  number of values in each BY-list        -DALLDAY date-only DTSTART
 *   -DNOCC=<n> occurrences asked for   -DDENS=<n> density bound (periods between occurrences)
 *   -DWITH_COUNT / -DWITH_UNTIL                              */
#define WORD_MEMOPS
#include "libc_models.h"
#include "evrrul.c"
#define ORC_FAST
#include "rrule.h"

#if !defined FREQ
# error FREQ
#endif
#if !defined NOCC
# define NOCC 2
#endif
#if !defined DENS
# define DENS 6
#endif
#define DEF0(x)	x
#if !defined NMON
# define NMON 0
#endif
#if !defined NDOM
# define NDOM 0
#endif
#if !defined NDOY
# define NDOY 0
#endif
#if !defined NWK
# define NWK 0
#endif
#if !defined NDOW
# define NDOW 0
#endif
#if !defined NH
# define NH 0
#endif
#if !defined NM
# define NM 0
#endif
#if !defined NS
# define NS 0
#endif
#define V(n)	((n) ? (n) : 1)

#define INPUTS X(y) X(m) X(d) X(H) X(M) X(S) X(inter) \
	XA(mon, V(NMON)) XA(dom, V(NDOM)) XA(doy, V(NDOY)) XA(wk, V(NWK)) XA(dww, V(NDOW)) XA(dwn, V(NDOW)) \
	XA(bh, V(NH)) XA(bm, V(NM)) XA(bs, V(NS)) X(count) \
	X(uy) X(um) X(ud) X(uH) X(uM) X(uS) \
	X(zy) X(zm) X(zd) X(zH) X(zM) X(zS) X(wy) X(wm) X(wd) X(wH) X(wM) X(wS)
#include "sym.h"

#if defined ALLDAY
# define AD true
#else
# define AD false
#endif

static echs_instant_t to_inst(struct orc_dt_s x)
{
	echs_instant_t i = {.u = 0U};
	i.y = x.y, i.m = x.m, i.d = x.d;
	if (x.allday) {
		i.H = ECHS_ALL_DAY;
	} else {
		i.H = x.H, i.M = x.M, i.S = x.S, i.ms = ECHS_ALL_SEC;
	}
	return i;
}

static struct orc_dt_s from_inst(echs_instant_t i)
{
	struct orc_dt_s x = {.y = i.y, .m = i.m, .d = i.d, .H = i.H, .M = i.M, .S = i.S, .allday = i.H == ECHS_ALL_DAY};
	if (x.allday) x.H = x.M = x.S = 0;
	return x;
}

static struct orc_dt_s mkdt(long long y, long long m, long long d, long long H, long long M, long long S)
{
	struct orc_dt_s x = {.y = (int)y, .m = (int)m, .d = (int)d, .H = AD ? 0 : (int)H, .M = AD ? 0 : (int)M, .S = AD ? 0 : (int)S, .allday = AD};
	return x;
}

static bool small(long long y, long long m, long long d, long long H, long long M, long long S)
{
	/* (the termination obligations of C09 start in 2099, the last supported year) */
#if defined YMIN
	const long long ymax = 2099;
#else
	const long long ymax = 2098;
#endif
	return y >= 1902 && y <= ymax && m >= 1 && m <= 12 && d >= 1 && d <= 31 && H >= 0 && H < 24 && M >= 0 && M < 60 && S >= 0 && S < 60;
}

/* distance in periods of the frequency, as the oracle counts it */
static long long pdist(int f, struct orc_dt_s D, struct orc_dt_s x)
{
	const long long dx = orc_daynum(x.y, x.m, x.d), dD = orc_daynum(D.y, D.m, D.d);
	switch (f) {
	case ORC_YEARLY: return x.y - D.y;
	case ORC_MONTHLY: return (x.y - D.y) * 12 + (x.m - D.m);
	case ORC_WEEKLY: return (dx + 1) / 7 - (dD + 1) / 7;
	case ORC_DAILY: return dx - dD;
	case ORC_HOURLY: return (dx - dD) * 24 + (x.H - D.H);
	case ORC_MINUTELY: return ((dx - dD) * 24 + (x.H - D.H)) * 60 + (x.M - D.M);
	default: return (((dx - dD) * 24 + (x.H - D.H)) * 60 + (x.M - D.M)) * 60 + (x.S - D.S);
	}
}

void harness(void)
{
	struct orc_rule_s R = {.freq = FREQ};
	struct rrulsp_s rr = {.freq = (echs_freq_t)FREQ, .count = -1, .inter = 1U, .until = echs_max_instant()};
	static echs_instant_t tgt[GRP_CCH_OFF + GRP_CCH_OFF];

	sym_load();
#if defined FIXDATE
	/* slices that only vary the month (termination of the month-skipping loops): year, day and
	 * time of DTSTART are constants of the obligation */
	in.y = 2030, in.d = 15, in.H = 9, in.M = 30, in.S = 0;
#endif
#if defined FIXDAY
	/* slices that vary year and month only (period arithmetic of the MONTHLY/YEARLY fillers) */
	in.d = 15, in.H = 9, in.M = 30, in.S = 0;
#endif
	/* --- the rule */
#if defined INTER
	/* INTERVAL is a per-obligation constant: a symbolic divisor in the period
	 * arithmetic (x % inter) costs a full divider circuit per use */
	ASSUME(in.inter == INTER);
	R.inter = INTER, rr.inter = INTER;
#else
	ASSUME(in.inter >= 1 && in.inter <= 4);
	R.inter = (int)in.inter, rr.inter = (unsigned)in.inter;
#endif
#define LIST(N, src, dstn, dstv, lo, hi, nonzero, distinct_stmt) \
	for (unsigned i_ = 0; i_ < N; i_++) { \
		ASSUME(in.src[i_] >= (lo) && in.src[i_] <= (hi) && (!(nonzero) || in.src[i_] != 0)); \
		if (i_ > 0) ASSUME(in.src[i_] != in.src[i_ - 1] && (i_ < 2 || in.src[i_] != in.src[i_ - 2])); \
		R.dstv[i_] = (int)in.src[i_]; \
	} \
	R.dstn = N;
	LIST(NMON, mon, nmon, mon, 1, 12, 0, 0)
	LIST(NDOM, dom, ndom, dom, -31, 31, 1, 0)
	LIST(NDOY, doy, ndoy, doy, -366, 366, 1, 0)
	LIST(NWK, wk, nwk, wk, 2, 51, 0, 0)	/* interior weeks; boundary weeks are a separate obligation */
#if defined SAFETY
	LIST(NH, bh, nH, H, 0, 24, 0, 0)
#else
	LIST(NH, bh, nH, H, 0, 23, 0, 0)
#endif
	LIST(NM, bm, nM, M, 0, 59, 0, 0)
#if defined SAFETY
	LIST(NS, bs, nS, S, 0, 60, 0, 0)
#else
	LIST(NS, bs, nS, S, 0, 59, 0, 0)
#endif
	for (unsigned i = 0; i < NDOW; i++) {
		ASSUME(in.dww[i] >= 1 && in.dww[i] <= 7);
#if defined DOW_ORD
# if FREQ == ORC_MONTHLY || NMON > 0
		ASSUME(in.dwn[i] >= -5 && in.dwn[i] <= 5 && in.dwn[i] != 0);
# else
		ASSUME(in.dwn[i] >= -53 && in.dwn[i] <= 53 && in.dwn[i] != 0);
# endif
#else
		ASSUME(in.dwn[i] == 0);
#endif
		if (i > 0) ASSUME(in.dww[i] != in.dww[i - 1] || in.dwn[i] != in.dwn[i - 1]);
		R.dow_wd[i] = (int)in.dww[i], R.dow_n[i] = (int)in.dwn[i];
	}
	R.ndow = NDOW;
	for (unsigned i = 0; i < NMON; i++) rr.mon = ass_bui31(rr.mon, (unsigned)in.mon[i]);
	for (unsigned i = 0; i < NDOM; i++) rr.dom = ass_bi31(rr.dom, (int)in.dom[i]);
	for (unsigned i = 0; i < NDOY; i++) ass_bi383(&rr.doy, (int)in.doy[i]);
	for (unsigned i = 0; i < NWK; i++) rr.wk = ass_bi63(rr.wk, (int)in.wk[i]);
	for (unsigned i = 0; i < NDOW; i++) ass_bi447(&rr.dow, pack_cd(CD((int)in.dwn[i], (echs_wday_t)in.dww[i])));
	for (unsigned i = 0; i < NH; i++) rr.H = ass_bui31(rr.H, (unsigned)in.bh[i]);
#if defined ALLHOURS
	for (unsigned i = 0; i <= 24U; i++) rr.H = ass_bui31(rr.H, i);	/* BYHOUR=0,1,...,24 is accepted by the parser */
#endif
#if defined ALLSECONDS
	for (unsigned i = 0; i <= 60U; i++) rr.S = ass_bui63(rr.S, i);	/* BYSECOND=0,...,60 is accepted by the parser */
#endif
	for (unsigned i = 0; i < NM; i++) rr.M = ass_bui63(rr.M, (unsigned)in.bm[i]);
	for (unsigned i = 0; i < NS; i++) rr.S = ass_bui63(rr.S, (unsigned)in.bs[i]);

	/* --- DTSTART, synchronised with the rule (RFC 5545: otherwise undefined) */
	ASSUME(small(in.y, in.m, in.d, in.H, in.M, in.S));
#if defined YMIN
	ASSUME(in.y >= YMIN);
#endif
#if defined DMIN
	ASSUME(in.m == 12 && in.d >= DMIN);
#endif
	const struct orc_dt_s D = mkdt(in.y, in.m, in.d, in.H, in.M, in.S);
	ASSUME(orc_valid_dt(D));
#if defined SAFETY || defined EMPTY
	/* C09: the accepted language, not the sensible one: DTSTART need not match
	 * the rule; the caller is refill(): the whole cache is asked for */
	for (unsigned j = 0; j < GRP_CCH_OFF; j++) tgt[j] = to_inst(D);
	{
# if defined EMPTY
		/* rule classes with an empty recurrence set, see plan */
		EMPTY;
# endif
		size_t r_;
# if FREQ == 1
		r_ = rrul_fill_yly(tgt, GRP_CCH_OFF, &rr);
# elif FREQ == 2
		r_ = rrul_fill_mly(tgt, GRP_CCH_OFF, &rr);
# elif FREQ == 3
		r_ = rrul_fill_wly(tgt, GRP_CCH_OFF, &rr);
# elif FREQ == 4
		r_ = rrul_fill_dly(tgt, GRP_CCH_OFF, &rr);
# elif FREQ == 5
		r_ = rrul_fill_Hly(tgt, GRP_CCH_OFF, &rr);
# elif FREQ == 6
		r_ = rrul_fill_Mly(tgt, GRP_CCH_OFF, &rr);
# else
		r_ = rrul_fill_Sly(tgt, GRP_CCH_OFF, &rr);
# endif
		CHECK(r_ <= GRP_CCH_OFF, "the filler never reports more occurrences than the cache holds");
# if defined EMPTY
		CHECK(r_ == 0U, "an empty recurrence set ends the stream");
# endif
		for (unsigned j = 0; j < GRP_CCH_OFF; j++) {
			if (j + 1U < r_) {
				CHECK(echs_instant_lt_p(tgt[j], tgt[j + 1U]), "occurrences strictly increase");
			}
		}
		WITNESS_POINT();
	}
#else
	ASSUME(orc_member(&R, D, D));

	/* --- COUNT / UNTIL */
	size_t nti = NOCC;
#if defined WITH_COUNT
	ASSUME(in.count >= 1 && in.count <= NOCC + 1);
	rr.count = (int)in.count;
#endif
	struct orc_dt_s U = {.y = 9999};
#if defined WITH_UNTIL
	ASSUME(small(in.uy, in.um, in.ud, in.uH, in.uM, in.uS));
	U = mkdt(in.uy, in.um, in.ud, in.uH, in.uM, in.uS);
	ASSUME(orc_valid_dt(U) && !orc_lt(U, D));
	rr.until = to_inst(U);
#endif

	/* --- density: the rule has another occurrence within B periods of DTSTART
	 * (sparser rules are the subject of C09's termination obligations) */
	ASSUME(small(in.wy, in.wm, in.wd, in.wH, in.wM, in.wS));
	const struct orc_dt_s W = mkdt(in.wy, in.wm, in.wd, in.wH, in.wM, in.wS);
	ASSUME(orc_member(&R, D, W) && orc_lt(D, W) && pdist(FREQ, D, W) <= (long long)DENS * R.inter);
#if NOCC > 2
# error density witnesses for K > 2 not wired yet
#endif

	/* --- run the real filler the way refill() does */
	for (unsigned j = 0; j < GRP_CCH_OFF; j++) tgt[j] = to_inst(D);
	size_t res;
#if FREQ == 1
	res = rrul_fill_yly(tgt, nti, &rr);
#elif FREQ == 2
	res = rrul_fill_mly(tgt, nti, &rr);
#elif FREQ == 3
	res = rrul_fill_wly(tgt, nti, &rr);
#elif FREQ == 4
	res = rrul_fill_dly(tgt, nti, &rr);
#elif FREQ == 5
	res = rrul_fill_Hly(tgt, nti, &rr);
#elif FREQ == 6
	res = rrul_fill_Mly(tgt, nti, &rr);
#else
	res = rrul_fill_Sly(tgt, nti, &rr);
#endif

	/* --- what must hold */
	size_t want = NOCC;
#if defined WITH_COUNT
	if ((size_t)in.count < want) want = (size_t)in.count;
#endif
	CHECK(res <= want, "never more occurrences than asked for / than COUNT");
	const struct orc_dt_s y0 = from_inst(tgt[0]), y1 = from_inst(tgt[1]);
	/* first occurrence is DTSTART itself */
	CHECK(res >= 1U, "DTSTART, being in the set, is produced");
	if (res >= 1U) {
		CHECK(orc_eq(y0, D), "first occurrence is DTSTART");
	}
	const bool w_allowed = !orc_lt(U, W);
	if (want >= 2U && w_allowed) {
		CHECK(res >= 2U, "the occurrence after DTSTART is not missing");
	}
	if (res >= 2U) {
		CHECK(orc_member(&R, D, y1), "second occurrence belongs to the RFC 5545 recurrence set");
		CHECK(orc_lt(y0, y1), "occurrences strictly increase");
		CHECK(!orc_lt(U, y1), "no occurrence after UNTIL");
		CHECK(!orc_lt(W, y1), "no occurrence of the set is skipped (witness lies before the second output)");
		/* completeness: nothing of the set lies strictly between the two outputs */
		ASSUME(small(in.zy, in.zm, in.zd, in.zH, in.zM, in.zS));
		const struct orc_dt_s Z = mkdt(in.zy, in.zm, in.zd, in.zH, in.zM, in.zS);
		if (orc_lt(y0, Z) && orc_lt(Z, y1)) {
			CHECK(!orc_member(&R, D, Z), "no instant of the recurrence set lies between consecutive occurrences");
		}
	}
	WITNESS_POINT();
#endif
}
