"""C01 -- RRULE expansion equals the RFC 5545 recurrence set (fillers of src/evrrul.c)."""
NOTE = ("One query per rule SHAPE (frequency x which BY-parts are present x list lengths); inside a shape DTSTART (any "
        "date 1902..2098, date or date-time), INTERVAL 1..4, every list member, COUNT and UNTIL are solver variables. "
        "Soundness: every produced instant satisfies the RFC 5545 membership predicate oracle/rrule.h. Completeness: a fresh "
        "symbolic instant z between consecutive outputs must not satisfy it, and a symbolic witness occurrence w within B "
        "periods after DTSTART must not be skipped.")
ASSUMPTIONS = ["DTSTART synchronised with the rule (RFC 5545: otherwise the set is undefined)",
               "the rule has an occurrence within B periods after DTSTART (sparser and empty rules: C09)",
               "first K = 2 occurrences of one filler call; later cache refills: C16 restart consistency",
               "BY-lists of the stated lengths with distinct values; BYWEEKNO restricted to interior weeks 2..51"]
U = ['src/bitint.c', 'src/scale.c', 'src/instant.c']
FN = {1: 'rrul_fill_yly', 2: 'rrul_fill_mly', 3: 'rrul_fill_wly', 4: 'rrul_fill_dly', 5: 'rrul_fill_Hly', 6: 'rrul_fill_Mly', 7: 'rrul_fill_Sly'}
FNAME = {1: 'yearly', 2: 'monthly', 3: 'weekly', 4: 'daily', 5: 'hourly', 6: 'minutely', 7: 'secondly'}

def shape(freq, name, parts, B=6, K=2, extra=(), uw=None, **kw):
    defs = ['FREQ=%d' % freq, 'NOCC=%d' % K, 'DENS=%d' % B] + ['%s=%d' % kv for kv in sorted(parts.items())] + list(extra)
    nprod = max(1, parts.get('NH', 0)) * max(1, parts.get('NM', 0)) * max(1, parts.get('NS', 0))
    unwindset = {
        'bui31_next.*': 33, 'bi31_next.*': 34, 'bui63_next.*': 65, 'bi63_next.*': 66,
        # candidate sets stay in list form (<= 12 entries): bitset-form loops are proved unreachable with bound 1
        'bi383_next.*': 1, 'ass_bi383.*': 1, 'ass_int383.*': 13, 'bi447_next.*': 1, 'ass_bi447.*': 1, 'ass_int447.*': 5,
        'memcpy.*': 73, 'memmove.*': 13, 'memset.*': 25, 'make_enum.*': 4,
        'orc_in.*': 5, 'orc_member.*': 5, 'harness.*': 66, 'sym_load.*': 6, 'clr_poss.*': 2, 'shift.*': 2, 'mjd2ht.*': 2,
        'fill_mly_ymd.*': 4, 'fill_yly_ymd.*': 4, 'fill_mly_ymcw.*': 4, 'fill_yly_ymcw.*': 4, 'fill_yly_ycw.*': 4,
        'fill_yly_ywd.*': 4, 'fill_yly_yd.*': 4, 'fill_yly_eastr.*': 2,
        'fill_mly_ymd_all_d.*': 33, 'fill_yly_ymd_all_d.*': 4, 'fill_yly_ymd_all_m.*': 14, 'fill_yly_md_all.*': 33, 'fill_yly_yd_all.*': 368,
        FN[freq] + '.*': B + 3,
    }
    unwindset.update(uw or {})
    o = dict(name='%s_%s' % (FNAME[freq], name), src='h_rrul.c', defs=defs, units=U, incl=['src/evrrul.c'], replay_units='all',
             unwind=4, unwindset=unwindset, solver='cadical', timeout=900, mem_gb=8,
             checks=['--bounds-check', '--div-by-zero-check'],
             enc=[FN[freq], 'make_enum', 'fill_*', 'clr_poss', 'shift', 'ymcw_get_dom', 'ywd_to_md', 'yd_to_md', 'ycw_get_yday', 'bitint.h', 'bitint.c', 'echs_scale_ndim/wday'],
             sym='DTSTART, INTERVAL, every BY-list value, COUNT/UNTIL, gap witness z, density witness w',
             bounds='shape %s; K=%d occurrences; next occurrence within B=%d periods; INTERVAL 1..4' % (' '.join(defs[3:]) or 'no BY-part', K, B),
             outside='longer BY-lists, K > 2, sparser rules (C09), cache refills (C16), text parsing (C05/C10)',
             stubs=['word-wise memcpy/memmove/memset (harness/common/libc_models.h)'])
    o.update(kw)
    return o

OBLIGATIONS = [
    shape(2, 'plain', {}),
    shape(2, 'bymonthday1', {'NDOM': 1}),
    shape(1, 'plain', {}),
    shape(4, 'plain', {}),
    shape(3, 'plain', {}),
    shape(5, 'plain', {}),
]
