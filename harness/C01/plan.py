"""C01 -- RRULE expansion equals the RFC 5545 recurrence set (fillers of src/evrrul.c)."""
NOTE = ("One query per rule SHAPE (frequency x which BY-parts are present x list lengths); inside a shape DTSTART (any "
        "date 1902..2098, date or date-time), INTERVAL 1..4, every list member, COUNT and UNTIL are solver variables. "
        "Soundness: every produced instant satisfies the RFC 5545 membership predicate oracle/rrule.h. Completeness: a fresh "
        "symbolic instant z between consecutive outputs must not satisfy it, and a symbolic witness occurrence w within B "
        "periods after DTSTART must not be skipped.")
ASSUMPTIONS = ["DTSTART synchronised with the rule (RFC 5545: otherwise the set is undefined)",
               "the rule has an occurrence within B periods after DTSTART (sparser and empty rules: C09)",
               "first K = 2 occurrences of one filler call; later cache refills: C16 restart consistency",
               "BY-lists of the stated lengths with distinct values; BYWEEKNO restricted to interior weeks 2..51"]
U = ['src/bitint.c', 'src/scale.c', 'src/instant.c']
FN = {1: 'rrul_fill_yly', 2: 'rrul_fill_mly', 3: 'rrul_fill_wly', 4: 'rrul_fill_dly', 5: 'rrul_fill_Hly', 6: 'rrul_fill_Mly', 7: 'rrul_fill_Sly'}
FNAME = {1: 'yearly', 2: 'monthly', 3: 'weekly', 4: 'daily', 5: 'hourly', 6: 'minutely', 7: 'secondly'}

def shape(freq, name, parts, B=3, K=2, inter=1, cand=2, extra=(), uw=None, **kw):
    """cand: the most candidates one period can hold for this shape (bounds the list-form insertion loops)"""
    defs = ['FREQ=%d' % freq, 'NOCC=%d' % K, 'DENS=%d' % B, 'INTER=%d' % inter, 'ECHSE_VERIF_CCH=4U'] + \
        ['%s=%d' % kv for kv in sorted(parts.items())] + list(extra)
    unwindset = {
        'bui31_next.*': 33, 'bi31_next.*': 34, 'bui63_next.*': 65, 'bi63_next.*': 66,
        # candidate sets stay in list form (<= 12 entries): bitset-form loops are proved unreachable with bound 1
        'bi383_next.*': 1, 'ass_bi383.*': 1, 'ass_int383.*': cand + 1, 'bi447_next.*': 1, 'ass_bi447.*': 1, 'ass_int447.*': 5,
        'memcpy.*': 73, 'memmove.*': cand + 1, 'memset.*': 25, 'make_enum.*': 4,
        'orc_in.*': 5, 'orc_member.*': 5, 'harness.*': 6, 'sym_load.*': 6, 'clr_poss.*': 2, 'shift.*': 2, 'mjd2ht.*': 2,
        'fill_mly_ymd.*': 4, 'fill_yly_ymd.*': 4, 'fill_mly_ymcw.*': 4, 'fill_yly_ymcw.*': 4, 'fill_yly_ycw.*': 4,
        'fill_yly_ywd.*': 4, 'fill_yly_yd.*': 4, 'fill_yly_eastr.*': 2,
        'fill_mly_ymd_all_d.*': 33, 'fill_yly_ymd_all_d.*': 4, 'fill_yly_ymd_all_m.*': 14, 'fill_yly_md_all.*': 33, 'fill_yly_yd_all.*': 368,
        # month-skipping loops need up to 12 rounds only when BYMONTH is present (the unwinding assertions check the bound)
        FN[freq] + '.*': max(B + 3, 14) if 'NMON' in parts else B + 3,
    }
    if freq == 2:
        # rrul_fill_mly: exact bounds per loop instead of one bound for all twelve (they nest four deep: a common bound of 6 means
        # 6^4 copies of the innermost body); the unwinding assertions check every one of them
        ntimes = max(parts.get('NH', 0), 1) * max(parts.get('NM', 0), 1) * max(parts.get('NS', 0), 1)
        bymon = 13 if 'NMON' in parts else 2
        unwindset.update({'rrul_fill_mly.0': parts.get('NDOM', 0) + 2, 'rrul_fill_mly.1': parts.get('NDOM', 0) + 2,
                          'rrul_fill_mly.2': parts.get('NDOW', 0) + 2, 'rrul_fill_mly.3': parts.get('NDOW', 0) + 2, 'rrul_fill_mly.4': 3,
                          'rrul_fill_mly.5': bymon, 'rrul_fill_mly.6': bymon, 'rrul_fill_mly.7': ntimes + 2, 'rrul_fill_mly.8': cand + 2,
                          'rrul_fill_mly.9': 4, 'rrul_fill_mly.10': bymon, 'rrul_fill_mly.11': B + 3})
    if freq == 1:
        # rrul_fill_yly: list scans (.0-.5), time-of-day enumeration (.6) inside the candidate loop (.7) inside the year-bucket loop (.8)
        # inside the main loop (.9): exact bounds instead of one for all
        nt_ = max(parts.get('NH', 0), 1) * max(parts.get('NM', 0), 1) * max(parts.get('NS', 0), 1)
        ll_ = max([parts.get(k, 0) for k in ('NMON', 'NDOM', 'NDOY', 'NWK', 'NDOW')] + [0]) + 2
        unwindset.update({'rrul_fill_yly.0': ll_, 'rrul_fill_yly.1': ll_, 'rrul_fill_yly.2': ll_, 'rrul_fill_yly.3': ll_, 'rrul_fill_yly.4': ll_, 'rrul_fill_yly.5': ll_,
                          'rrul_fill_yly.6': nt_ + 2, 'rrul_fill_yly.7': cand + 2, 'rrul_fill_yly.8': 4, 'rrul_fill_yly.9': B + 3})
    ntimes_all = max(parts.get('NH', 0), 1) * max(parts.get('NM', 0), 1) * max(parts.get('NS', 0), 1)
    if freq == 4:
        # rrul_fill_dly: the time-of-day enumeration (.6) and the month carry (.7) nest inside the main loop (.8): exact bounds
        unwindset.update({'rrul_fill_dly.6': ntimes_all + 2, 'rrul_fill_dly.7': 3})
    if freq == 5:
        # rrul_fill_Hly: BYYEARDAY scan (.8), minute/second enumeration (.9), month carry (.10) inside the main loop (.11)
        unwindset.update({'rrul_fill_Hly.8': parts.get('NDOY', 0) + 2, 'rrul_fill_Hly.9': max(parts.get('NM', 0), 1) * max(parts.get('NS', 0), 1) + 2, 'rrul_fill_Hly.10': 3})
    unwindset.update(uw or {})
    o = dict(name='%s_%s_i%d' % (FNAME[freq], name, inter), src='h_rrul.c', defs=defs, units=U, incl=['src/evrrul.c'], replay_units='all',
             unwind=4, unwindset=unwindset, solver='minisat', slice_formula=True, timeout=1500 if freq <= 3 else 1000, mem_gb=(14 if freq == 1 else 8) if freq <= 3 else 4,
             extra=['--max-field-sensitivity-array-size', '4'],
             checks=['--bounds-check', '--div-by-zero-check'],
             enc=[FN[freq], 'make_enum', 'fill_*', 'clr_poss', 'shift', 'ymcw_get_dom', 'ywd_to_md', 'yd_to_md', 'ycw_get_yday', 'bitint.h', 'bitint.c', 'echs_scale_ndim/wday'],
             sym='DTSTART, every BY-list value, COUNT/UNTIL, gap witness z, density witness w',
             bounds='shape %s; INTERVAL=%d; K=%d occurrences; next occurrence within B=%d periods' % (' '.join(defs[5:]) or 'no BY-part', inter, K, B),
             outside='longer BY-lists, K > 2, sparser rules (C09), cache refills (C16), text parsing (C05/C10)',
             stubs=['word-wise memcpy/memmove/memset (harness/common/libc_models.h)', 'hook ECHSE_VERIF_CCH=4 (cache of 4 instead of 64)'])
    o.update(kw)
    return o

Q = ('quick', 'thorough')
T = ('thorough',)
OBLIGATIONS = []
def add(freq, name, parts, quick_inters=(1,), all_inters=(1, 2, 3), **kw):
    for i in all_inters:
        OBLIGATIONS.append(shape(freq, name, parts, inter=i, tiers=Q if i in quick_inters else T,
                                 B=3 if i in quick_inters else 5, **kw))

# --- no BY-part: pure period arithmetic, one per frequency
for f in (1, 2, 3, 4, 5, 6, 7):
    add(f, 'plain', {}, quick_inters=(2,) if f in (4, 5) else (), cand=1)
# --- monthly, intervals beyond a year (the month/year carry of the period step)
add(2, 'plain', {}, quick_inters=(13,), all_inters=(13, 25), cand=1)
add(1, 'plain', {}, quick_inters=(), all_inters=(5,), cand=1)
# --- monthly
add(2, 'bymonthday1', {'NDOM': 1}, quick_inters=(), cand=1)
add(2, 'bymonthday2', {'NDOM': 2}, quick_inters=(), cand=2)
add(2, 'byday1', {'NDOW': 1}, quick_inters=(), cand=5, timeout=1500)
add(2, 'bydayord1', {'NDOW': 1}, quick_inters=(), cand=1, extra=['DOW_ORD'])
add(2, 'bymonth1', {'NMON': 1}, quick_inters=(), cand=1)
add(2, 'byhour2', {'NH': 2}, quick_inters=(), cand=1)
# --- yearly
add(1, 'bymonth1', {'NMON': 1}, quick_inters=(), cand=1)
add(1, 'bymonth1_bymonthday1', {'NMON': 1, 'NDOM': 1}, quick_inters=(), cand=1)
add(1, 'bymonthday1', {'NDOM': 1}, quick_inters=(), cand=12, timeout=1500)
add(1, 'byyearday1', {'NDOY': 1}, quick_inters=(), cand=1)
add(1, 'bymonth1_bydayord1', {'NMON': 1, 'NDOW': 1}, quick_inters=(), cand=1, extra=['DOW_ORD'])
add(1, 'bydayord1', {'NDOW': 1}, quick_inters=(), cand=1, extra=['DOW_ORD'])
add(1, 'byweekno1_byday1', {'NWK': 1, 'NDOW': 1}, quick_inters=(), cand=1)
# --- weekly / daily / hourly .. with limiting parts
add(3, 'byday2', {'NDOW': 2}, quick_inters=(), cand=1)
add(4, 'bymonth1', {'NMON': 1}, quick_inters=(), cand=1, all_inters=(1, 2))
add(4, 'bymonthday1', {'NDOM': 1}, quick_inters=(), cand=1, all_inters=(1, 2))
add(4, 'byhour2_byminute2', {'NH': 2, 'NM': 2}, quick_inters=(), cand=1, all_inters=(1,))
add(5, 'byminute2', {'NM': 2}, quick_inters=(), cand=1, all_inters=(1, 2))
add(6, 'bysecond2', {'NS': 2}, quick_inters=(), cand=1, all_inters=(1, 2))
# --- COUNT and UNTIL
OBLIGATIONS.append(shape(2, 'bymonthday1_count', {'NDOM': 1}, inter=1, extra=['WITH_COUNT'], tiers=T, cand=1))
OBLIGATIONS.append(shape(4, 'plain_count', {}, inter=1, extra=['WITH_COUNT'], tiers=Q, cand=1))
OBLIGATIONS.append(shape(4, 'plain_until', {}, inter=1, extra=['WITH_UNTIL'], tiers=Q, cand=1))
OBLIGATIONS.append(shape(1, 'bymonth1_until', {'NMON': 1}, inter=1, extra=['WITH_UNTIL'], tiers=T, cand=1))
OBLIGATIONS.append(shape(3, 'plain_allday', {}, inter=1, extra=['ALLDAY'], tiers=T, cand=1))
OBLIGATIONS.append(shape(2, 'bymonthday1_allday', {'NDOM': 1}, inter=1, extra=['ALLDAY'], tiers=T, cand=1))
