/* C06 (dirty-user bookkeeping): every user whose queue changed since the last checkpoint is
 * checkpointed by the next one -- individually while the dirty list (16 slots) holds them, by
 * the dump-everybody fallback once it has overflowed.
 * Real code: src/echsd.c (included textually via echsd_env.h): add_chkpnt(), chkpnt().
 * chkpnt1()/chkpnta() -- whose file handling is the subject of h_chkpnt.c -- are replaced by
 * recorders (goto-instrument --replace-calls), the trie insertion that backs chkpntedp() is cut
 * (it does not decide who gets checkpointed).  NADD change notes with symbolic uids out of a small
 * set, the number of notes symbolic in 0..NADD. */
#define ECHS_TASK_POOL_INIZ	(1U)
#define ECHS_CHLD_POOL_INIZ	(1U)
#include "echsd_env.h"

#if !defined NADD
# define NADD 18
#endif
#define NUID 4
#define INPUTS X(n) XA(u, NADD)
#include "sym.h"

static int done1[NUID];		/* chkpnt1(uid) calls per uid */
static int doneall;		/* chkpnta() calls */
static int stray;

int rec_chkpnt1(uid_t u)
{
	if (u >= 1000U && u < 1000U + NUID) done1[u - 1000U]++;
	else stray = 1;
	return 0;
}
int rec_chkpnta(void) { doneall++; return 0; }
#if defined VERIF_CBMC
struct ndnd_s;
void rec_trie_insert(ndtr_t *t, ndnd_t *n) { (void)t; (void)n; }
#endif

void harness(void)
{
	bool dirty[NUID] = {false};
	sym_load();
	ENV_INIT();
	ASSUME(in.n >= 0 && in.n <= NADD);
	for (unsigned i = 0; i < NADD; i++) {
		if (i < (unsigned)in.n) {
			ASSUME(in.u[i] >= 1000 && in.u[i] < 1000 + NUID);
			add_chkpnt((uid_t)in.u[i]);
			dirty[in.u[i] - 1000] = true;
		}
	}
	(void)chkpnt();
	CHECK(!stray, "only noted users are checkpointed individually");
	for (unsigned k = 0; k < NUID; k++) {
		if (dirty[k]) {
			CHECK(doneall > 0 || done1[k] > 0, "every user with a change since the last checkpoint is checkpointed (individually or by the dump of everybody)");
		}
	}
	CHECK(ichkpnts == 0U, "the dirty list is empty after a checkpoint");
	WITNESS_POINT();
}
