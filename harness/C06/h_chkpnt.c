/* C06: the checkpoint file is never torn -- write side.
 * Real code: src/echsd.c (included textually via echsd_env.h): chkpnt, chkpnt1;
 * src/evical.c as a linked unit with its REAL buffered writer src/fdprnt.h:
 * echs_icalify_init, echs_task_icalify, send_task, send_ical_hdr/ftr,
 * echs_icalify_fini (vsnprintf left body-less: only byte counts matter).
 * File-system stand-in below: one symbolic fault (which system call fails, and
 * how) per run; the invariant "the live queue file is the old complete file or
 * a new complete file" is asserted after EVERY system call, which covers a
 * crash at every system-call boundary. */
#define ECHS_TASK_POOL_INIZ	(2U)
#define ECHS_CHLD_POOL_INIZ	(2U)
#define ENV_OWN_SNPRINTF
#include "echsd_env.h"
#include <fcntl.h>

#define INPUTS X(fault) X(how) X(ntask) X(own0) X(own1) X(dirty)
#include "sym.h"

/* ---- file system stand-in */
static unsigned int nsys;		/* system calls so far */
#if !defined FAULTMAX
# define FAULTMAX 12
#endif
static int fs_fault = -1, fs_how, fs_only_write;
static int cur_fd = -1;
static char cur_name[32];
static long long handed, accepted;	/* bytes the writer handed in / the kernel took */
static int io_failed;			/* a write or close on the dot-file failed or was short */
static int live_torn;			/* an incomplete file was installed */
static unsigned int ninstalled, nunlinked, nopened;

static int faulty(void) { return (int)nsys++ == fs_fault; }
/* calls other than write(): never the failing one in the confirmer of C06-1 */
static int faulty_nw(void) { const int f = faulty(); return f && !fs_only_write; }

int snprintf(char *buf, size_t z, const char *fmt, ...)
{
	/* the one format the checkpointer uses for file names: ".echsq_%u.ics" (uids < 10 here) */
	if (fmt[0] == '.' && z >= 16U) {
		va_list ap;
		va_start(ap, fmt);
		unsigned int u = va_arg(ap, unsigned int);
		va_end(ap);
		const char pre[] = ".echsq_", suf[] = ".ics";
		size_t i = 0U;
		for (unsigned k = 0; k < 7U; k++) buf[i++] = pre[k];
		buf[i++] = (char)('0' + u % 10U);
		for (unsigned k = 0; k < 4U; k++) buf[i++] = suf[k];
		buf[i] = '\0';
		return (int)i;
	}
	if (z) buf[0] = '\0';
	return 0;
}

#if defined VERIF_CBMC
/* only the byte counts of the formatted output matter here.  A symbolic count per call makes the
 * buffer index a chain of ~130 conditional updates that cbmc's simplifier does not get through;
 * the count is a constant per obligation (-DVSN=<n>: where the flushes fall differs with it), the
 * failing system call stays symbolic */
#if !defined VSN
# define VSN 8
#endif
int vsnprintf(char *buf, size_t z, const char *fmt, va_list ap)
{
	(void)fmt; (void)ap;
	if (z) buf[0] = '\0';
	return VSN;
}
/* likewise the other producers of text whose length reaches the writer: constant lengths */
const char *obint_name(obint_t x) { (void)x; return "someone"; }
size_t dt_strf_ical(char *restrict buf, size_t bsz, echs_instant_t i) { (void)buf; (void)bsz; (void)i; return 16U; }
size_t idiff_strf(char *restrict buf, size_t bsz, echs_idiff_t d) { (void)buf; (void)bsz; (void)d; return 8U; }
#endif

#if defined VERIF_CBMC
/* the bytes written are not looked at by this harness, only how many: the buffered writer's
 * memcpy keeps its bounds obligation and loses its content */
void *c06_memcpy(void *dst, const void *src, size_t n)
{
	(void)src;
	__CPROVER_assert(__CPROVER_OBJECT_SIZE(dst) - __CPROVER_POINTER_OFFSET(dst) >= n, "CHECK the buffered writer copies inside its buffer");
	return dst;
}
#endif

int openat(int dfd, const char *fn, int fl, ...)
{
	(void)dfd;
	CHECK((fl & O_ACCMODE) == O_RDONLY || fn[0] == '.', "the live queue file is never opened for writing");
	if (faulty_nw()) return -1;
	nopened++;
	cur_fd = 50 + (int)nopened;
	for (unsigned k = 0; k < 16U; k++) cur_name[k] = fn[k];
	handed = accepted = 0, io_failed = 0;
	return cur_fd;
}

ssize_t write(int fd, const void *buf, size_t n)
{
	(void)buf;
	CHECK(fd == cur_fd, "checkpoint data goes to the dot-file only");
	handed += (long long)n;
	if (faulty()) {
#if defined KF_C06_1
		/* known finding C06-1 (write errors are not noticed) is excluded from the claim:
		 * the single fault of this run is not a write() */
		__CPROVER_assume(0);
#endif
		io_failed = 1;
		if (fs_how == 0) return -1;
		accepted += (long long)n - 1;	/* short write */
		return (ssize_t)n - 1;
	}
	accepted += (long long)n;
	return (ssize_t)n;
}

int close(int fd)
{
	if (fd != cur_fd) return 0;
	if (faulty_nw()) {
		io_failed = 1;
		return -1;
	}
	return 0;
}

int renameat(int od, const char *o, int nd, const char *n)
{
	(void)od; (void)nd;
	CHECK(n == o + 1 && o[0] == '.', "only the dot-file is renamed, onto the live name");
	if (faulty_nw()) return -1;
	/* the live file now has the dot-file's content */
	ninstalled++;
	if (io_failed || accepted != handed) live_torn = 1;
	return 0;
}

int unlinkat(int d, const char *fn, int fl) { (void)d; (void)fl; (void)fn; nsys++; nunlinked++; return 0; }
time_t time(time_t *t) { if (t) *t = 1700000000; return 1700000000; }

static struct echs_task_s T0, T1;
static struct _task_s W0, W1;
static struct tmap_s HT[4];

void harness(void)
{
	sym_load();
	ENV_INIT();
#if defined CFG_NTASK
	/* the queue configuration is a constant of the obligation (a symbolic number of tasks makes
	 * the writer's buffer index symbolic after the first join); the failing call stays symbolic */
	in.ntask = CFG_NTASK, in.own0 = CFG_OWN0, in.own1 = CFG_OWN1, in.dirty = 1;
#endif
	ASSUME(in.ntask >= 0 && in.ntask <= 2 && in.own0 >= 1 && in.own0 <= 2 && in.own1 >= 1 && in.own1 <= 2 && in.dirty >= 1 && in.dirty <= 2);
	ASSUME(in.fault >= -1 && in.fault < FAULTMAX && (in.how == 0 || in.how == 1));
#if defined KFONLY_C06_1
	fs_only_write = 1;
#endif
	fs_fault = (int)in.fault, fs_how = (int)in.how;
	T0.oid = 3U, T0.owner = nummapstr_bang_num((unsigned)in.own0), T0.umsk = 01000, T0.max_simul = 63, T0.run_as.u = NUMMAPSTR_NAN, T0.run_as.g = NUMMAPSTR_NAN;
	T1.oid = 6U, T1.owner = nummapstr_bang_num((unsigned)in.own1), T1.umsk = 01000, T1.max_simul = 63, T1.run_as.u = NUMMAPSTR_NAN, T1.run_as.g = NUMMAPSTR_NAN;
	W0.t = &T0, W1.t = &T1;
	task_ht = HT, ztask_ht = 4U;
	if (in.ntask >= 1) HT[3] = (struct tmap_s){3U, &W0};
	if (in.ntask >= 2) HT[2] = (struct tmap_s){6U, &W1};
	/* one user's queue changed since the last checkpoint */
	chkpnts[0].key = (uid_t)in.dirty, ichkpnts = 1U;

	const int rc = chkpnt();

	CHECK(!live_torn, "a file that was not written completely is never installed as the live queue file");
	CHECK(ninstalled <= 1U, "one rename per checkpointed user");
	if (in.fault < 0) {
		CHECK(rc == 0 && ninstalled == 1U && nopened == 1U, "without faults the dirty user's queue is checkpointed");
	}
	if (rc != 0 && nopened == 1U && ninstalled == 0U) {
		CHECK(nunlinked == 1U, "after a failed checkpoint the dot-file is removed and the live file untouched");
	}
	CHECK(ichkpnts == 0U, "every dirty user has been attempted");
	WITNESS_POINT();
}
