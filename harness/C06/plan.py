"""C06 -- the checkpoint file is never torn (write side)."""
NOTE = ("chkpnt()/chkpnt1() of src/echsd.c with the real serialiser of src/evical.c and its real buffered writer "
        "src/fdprnt.h executed symbolically against a file-system stand-in: which of the first 12 system calls "
        "(openat, each write, close, renameat) fails and how (error or short count) is symbolic; 0..2 tasks of two owners; "
        "the invariant 'live queue file = old complete or new complete' is asserted after every system call, i.e. for a "
        "crash at every system-call boundary.")
ASSUMPTIONS = ["rename(2) is atomic; a crash between system calls leaves what the completed calls left",
               "vsnprintf stand-in (constant byte count per obligation); one fault per checkpoint; <= 2 tasks, one dirty user",
               "the reload half (a daemon started afterwards schedules exactly the tasks of the last checkpoint) needs the text parser on the produced bytes: outside"]
def ob(name, defs, **kw):
    o = dict(name=name, src='h_chkpnt.c', defs=defs + ['ECHSE_VERIF_FDBUF=128U'], units=['src/evical.c', 'src/task.c'], incl=['src/echsd.c'], replay_units='all', replay_extra_units=['src/logger.c'],
             unwind=6, unwindset={'snprintf.*': 9, 'openat.*': 17, 'fdflush.*': 3, 'memcpy.*': 130, 'strlen.*': 40, 'chkpnt1.*': 6},
             solver='minisat', slice_formula=True, timeout=1500, mem_gb=24, object_bits=12, checks=['--bounds-check'], replace_calls={'memcpy': 'c06_memcpy'},
             allow_nobody=['echs_log', 'echs_errlog', 'epoch_to_echs_instant', 'echs_evstrm_seria'],
             enc=['chkpnt', 'chkpnt1', 'echs_icalify_init', 'echs_task_icalify', 'send_task', 'send_ical_hdr', 'send_ical_ftr', 'echs_icalify_fini', 'fdprintf', 'fdwrite', 'fdflush'],
             sym='which system call fails and how, number of tasks, their owners, the dirty user', bounds='<= 2 tasks, fault among the first 12 system calls',
             outside='reload of the written file; chkpnta() (all-users dump after 16 dirty users)',
             stubs=['file-system stand-in (openat/write/close/renameat/unlinkat) in the harness', 'snprintf stand-in for the file-name format', 'vsnprintf stand-in: a constant byte count per call (VSN), no content', 'obint_name/dt_strf_ical/idiff_strf stand-ins of constant length', 'memcpy of the buffered writer: bounds obligation kept, content dropped', 'hook ECHSE_VERIF_FDBUF=128 (output buffer of 128 instead of 4096 bytes: more flushes per checkpoint)'])
    o.update(kw)
    return o
CFGS = [(2, 1, 1), (2, 1, 2), (2, 2, 1), (2, 2, 2), (1, 1, 1), (1, 2, 1), (0, 1, 1)]
def cfg(n, a, b, vsn=8, fmax=12, **kw):
    return ob('chkpnt_fault_%dtasks_own%d%d_vsn%d' % (n, a, b, vsn), ['CFG_NTASK=%d' % n, 'CFG_OWN0=%d' % a, 'CFG_OWN1=%d' % b, 'VSN=%d' % vsn, 'FAULTMAX=%d' % fmax], excludes=['C06-1'],
              bounds='%d task(s) owned by users %d/%d, user 1 dirty; every formatted field %d bytes; the failing system call is any of the first %d (or none), failing outright or short' % (n, a, b, vsn, fmax), **kw)
OBLIGATIONS = [cfg(*c) for c in CFGS] + [cfg(*c, vsn=40, fmax=30, tiers=('thorough',), timeout=3000) for c in CFGS] + [
    dict(name='dirty_users_all_checkpointed', src='h_dirty.c', defs=['NADD=18'], units=[], incl=['src/echsd.c'], replay_units='all', replay_extra_units=['src/logger.c'],
         unwind=20, unwindset={'sym_load.*': 20}, solver='minisat', slice_formula=True, timeout=900, mem_gb=12, object_bits=12, checks=['--bounds-check'],
         replace_calls={'chkpnt1': 'rec_chkpnt1', 'chkpnta': 'rec_chkpnta', 'ndtr_t_NEDTRIE_INSERT': 'rec_trie_insert'},
         allow_nobody=['echs_log', 'echs_errlog', 'snprintf'], enc=['add_chkpnt', 'chkpnt'], sym='how many change notes (0..18) and whose (4 users)',
         bounds='up to 18 notes between two checkpoints (the dirty list holds 16)', outside='the file handling of chkpnt1/chkpnta (other obligations / outside)',
         stubs=['chkpnt1/chkpnta replaced by recorders', 'trie insertion cut (backs chkpntedp() only)']),
    ob('kf_write_error_ignored', ['CFG_NTASK=2', 'CFG_OWN0=1', 'CFG_OWN1=1', 'VSN=8'], expect='kf', kf='C06-1', witness=False),
    ob('chkpnt_single_fault', [], excludes=['C06-1'], tiers=('thorough',), timeout=3400),
]
