"""C18 -- date-time and duration text forms round-trip (src/dt-strpf.c)."""
NOTE = ("dt_strf/dt_strf_ical/dt_strp, idiff_strf/idiff_strp, range_strf/range_strp and the digit printers executed "
        "symbolically: the instant / duration / component values are solver variables, the text is whatever the real "
        "printer produces (or, for the spelling obligation, a [+|-]P[nW][nD][T[nH][nM][nS]] text built from symbolic "
        "component values).")
ASSUMPTIONS = ["instants valid, 1901..2099, seconds 0..60", "durations whole seconds (the print form has no sub-second digits)",
               "spelling components: 1..3 digits each"]
CK = ['--bounds-check', '--pointer-check', '--div-by-zero-check']
def ob(name, defs, **kw):
    o = dict(name=name, src='h_strpf.c', defs=defs, units=['src/instant.c'], incl=['src/dt-strpf.c'], replay_units='all', unwind=12,
             unwindset={'harness.0': 65, 'sym_load.*': 17}, solver='kissat', slice_formula=True, timeout=600, mem_gb=6, checks=CK)
    o.update(kw)
    return o
# idiff_strp(): the digit loops (.0, .3) nest inside the backward gotos more_date (.1 W, .2 D) and more_time (.4 H, .5 M, .6 S); each
# letter is accepted once, so 2 unwindings per goto loop are exact (checked by the unwinding assertions); a blanket --unwind 12 made
# symex walk 12^3 copies
IDP = {'idiff_strp.0': 7, 'idiff_strp.1': 3, 'idiff_strp.2': 3, 'idiff_strp.3': 7, 'idiff_strp.4': 3, 'idiff_strp.5': 3, 'idiff_strp.6': 3}
OBLIGATIONS = [
    ob('dt_iso_roundtrip', ['DT_ISO'], enc=['dt_strf', 'dt_strp', 'ui32tpstr'], sym='all fields of the instant, its kind, NUL-terminated vs explicit length',
       bounds='every valid instant 1901..2099 (date-only, second and millisecond resolution)'),
    ob('dt_ical_roundtrip', ['DT_ICAL'], enc=['dt_strf_ical', 'dt_strp', 'ui32tpstr'], sym='all fields of the instant, its kind', bounds='every valid date-only / second-resolution instant'),
    ob('idiff_roundtrip_days', ['IDIFF', 'DMAX=4000', 'DAYSONLY'], enc=['idiff_strf', 'idiff_strp', 'ui32tostr', 'ilog10_ceil', 'ilog2_ceil'], sym='the number of days', bounds='0 .. 4000 whole days', unwindset=dict(IDP, **{'harness.0': 65, 'sym_load.*': 17})),
    ob('idiff_roundtrip_subday', ['IDIFF', 'SUBDAY'], enc=['idiff_strf', 'idiff_strp', 'ui32tostr', 'ilog10_ceil'], sym='hours, minutes, seconds', bounds='every whole-second duration below one day', unwindset=dict(IDP, **{'harness.0': 65, 'sym_load.*': 17})),
    ob('idiff_roundtrip', ['IDIFF', 'DMAX=4000'], enc=['idiff_strf', 'idiff_strp', 'ui32tostr', 'ilog10_ceil', 'ilog2_ceil'], sym='the duration', bounds='0 .. 4000 days in whole seconds', tiers=('thorough',), timeout=3400, unwindset=dict(IDP, **{'harness.0': 65, 'sym_load.*': 17})),
    ob('idiff_spelling_WDHMS_2digits_sign0', ['SPELL', 'SHAPE=31', 'NDIG=2', 'SIGN=0'], enc=['idiff_strp'], sym='every digit of every component',
       bounds='layout WDHMS with 2 digit(s) per component', unwindset=dict(IDP, **{'harness.*': 65, 'sym_load.*': 17}), tiers=('quick', 'thorough')),
    ob('idiff_spelling_WDHMS_3digits_sign1', ['SPELL', 'SHAPE=31', 'NDIG=3', 'SIGN=1'], enc=['idiff_strp'], sym='every digit of every component',
       bounds='layout +WDHMS with 3 digit(s) per component', unwindset=dict(IDP, **{'harness.*': 65, 'sym_load.*': 17}), tiers=('thorough',), timeout=1800),
    ob('idiff_spelling_W_3digits_sign2', ['SPELL', 'SHAPE=1', 'NDIG=3', 'SIGN=2'], enc=['idiff_strp'], sym='every digit of every component',
       bounds='layout -W with 3 digit(s) per component', unwindset=dict(IDP, **{'harness.*': 65, 'sym_load.*': 17}), tiers=('quick', 'thorough')),
    ob('idiff_spelling_D_3digits_sign0', ['SPELL', 'SHAPE=2', 'NDIG=3', 'SIGN=0'], enc=['idiff_strp'], sym='every digit of every component',
       bounds='layout D with 3 digit(s) per component', unwindset=dict(IDP, **{'harness.*': 65, 'sym_load.*': 17}), tiers=('thorough',)),
    ob('idiff_spelling_WD_2digits_sign2', ['SPELL', 'SHAPE=3', 'NDIG=2', 'SIGN=2'], enc=['idiff_strp'], sym='every digit of every component',
       bounds='layout -WD with 2 digit(s) per component', unwindset=dict(IDP, **{'harness.*': 65, 'sym_load.*': 17}), tiers=('quick', 'thorough')),
    ob('idiff_spelling_HMS_2digits_sign0', ['SPELL', 'SHAPE=28', 'NDIG=2', 'SIGN=0'], enc=['idiff_strp'], sym='every digit of every component',
       bounds='layout HMS with 2 digit(s) per component', unwindset=dict(IDP, **{'harness.*': 65, 'sym_load.*': 17}), tiers=('quick', 'thorough')),
    ob('idiff_spelling_H_3digits_sign1', ['SPELL', 'SHAPE=4', 'NDIG=3', 'SIGN=1'], enc=['idiff_strp'], sym='every digit of every component',
       bounds='layout +H with 3 digit(s) per component', unwindset=dict(IDP, **{'harness.*': 65, 'sym_load.*': 17}), tiers=('thorough',)),
    ob('idiff_spelling_M_3digits_sign0', ['SPELL', 'SHAPE=8', 'NDIG=3', 'SIGN=0'], enc=['idiff_strp'], sym='every digit of every component',
       bounds='layout M with 3 digit(s) per component', unwindset=dict(IDP, **{'harness.*': 65, 'sym_load.*': 17}), tiers=('thorough',)),
    ob('idiff_spelling_S_3digits_sign2', ['SPELL', 'SHAPE=16', 'NDIG=3', 'SIGN=2'], enc=['idiff_strp'], sym='every digit of every component',
       bounds='layout -S with 3 digit(s) per component', unwindset=dict(IDP, **{'harness.*': 65, 'sym_load.*': 17}), tiers=('thorough',)),
    ob('idiff_spelling_DHS_2digits_sign1', ['SPELL', 'SHAPE=22', 'NDIG=2', 'SIGN=1'], enc=['idiff_strp'], sym='every digit of every component',
       bounds='layout +DHS with 2 digit(s) per component', unwindset=dict(IDP, **{'harness.*': 65, 'sym_load.*': 17}), tiers=('thorough',)),
    ob('idiff_spelling_DMS_3digits_sign0', ['SPELL', 'SHAPE=26', 'NDIG=3', 'SIGN=0'], enc=['idiff_strp'], sym='every digit of every component',
       bounds='layout DMS with 3 digit(s) per component', unwindset=dict(IDP, **{'harness.*': 65, 'sym_load.*': 17}), tiers=('thorough',)),
    ob('idiff_spellings', ['SPELL'], tiers=('thorough',), timeout=3400, enc=['idiff_strp'], sym='15 digits, digit counts, which components are present, leading sign',
       bounds='components of 1..3 digits each (weeks, days, hours, minutes, seconds up to 999)', unwindset=dict(IDP, **{'harness.*': 65, 'sym_load.*': 17})),
    ob('range_roundtrip', ['RANGE'], enc=['range_strf', 'range_strp', 'dt_strf', 'dt_strp'], sym='both instants', bounds='every pair of valid instants'),
    ob('ui32tostr_digits', ['DIGITS'], enc=['ui32tostr', 'ilog10_ceil', 'ilog2_ceil'], sym='the 32-bit value', bounds='all values 1..2^32-1'),
]
