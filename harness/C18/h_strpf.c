/* C18: date-time and duration text forms round-trip.
 * Real code: src/dt-strpf.c (included textually to reach ui32tostr & co).
 *  -DDT_ISO   dt_strp(dt_strf(x)) == x            (all three kinds)
 *  -DDT_ICAL  dt_strp(dt_strf_ical(x)) == x       (all-day and all-second kinds)
 *  -DIDIFF    idiff_strp(idiff_strf(d)) == d      (whole seconds, d >= 0)
 *  -DSPELL    W/D/H/M/S spellings (+ optional leading '+', or '-') parse to the computed value
 *  -DRANGE    range_strp(range_strf(r)) == r
 *  -DDIGITS   ui32tostr prints the decimal digits of any 32-bit value */
#include "dt-strpf.c"
#include "cal.h"

#define INPUTS X(y) X(m) X(d) X(H) X(M) X(S) X(ms) X(kind) X(dur) \
	X(y2) X(m2) X(d2) X(H2) X(M2) X(S2) X(w) X(dd) X(hh) X(mm) X(ss) X(sign) X(shape) X(uselen) XA(nd, 5) XA(dg, 15)
#include "sym.h"

enum { K_TIMED = 0, K_ALLDAY = 1, K_ALLSEC = 2 };

static echs_instant_t mk(long long y, long long m, long long d, long long H, long long M, long long S, long long ms, long long kind)
{
	echs_instant_t i = {.u = 0U};
	i.y = y, i.m = m, i.d = d;
	if (kind == K_ALLDAY) {
		i.H = ECHS_ALL_DAY;
	} else {
		i.H = H, i.M = M, i.S = S;
		i.ms = kind == K_ALLSEC ? ECHS_ALL_SEC : ms;
	}
	return i;
}

static bool valid_p(long long y, long long m, long long d, long long H, long long M, long long S, long long ms)
{
	return y >= 1901 && y <= 2099 && m >= 1 && m <= 12 && d >= 1 && d <= 31 &&
		orc_valid_date_p((int)y, (int)m, (int)d) &&
		H >= 0 && H < 24 && M >= 0 && M < 60 && S >= 0 && S <= 60 && ms >= 0 && ms < 1000;
}

/* append decimal VAL (at most 4 digits, no leading zeros) */
static size_t put_num(char *buf, size_t i, unsigned int val)
{
	if (val >= 1000U) buf[i++] = (char)('0' + val / 1000U % 10U);
	if (val >= 100U) buf[i++] = (char)('0' + val / 100U % 10U);
	if (val >= 10U) buf[i++] = (char)('0' + val / 10U % 10U);
	buf[i++] = (char)('0' + val % 10U);
	return i;
}

void harness(void)
{
	char buf[64];
	char *on = NULL;
	sym_load();
	for (unsigned i = 0; i < sizeof(buf); i++) buf[i] = '\0';
#if defined DT_ISO || defined DT_ICAL
	ASSUME(in.kind >= K_TIMED && in.kind <= K_ALLSEC);
# if defined DT_ICAL
	ASSUME(in.kind != K_TIMED);	/* the iCalendar form has second resolution */
# endif
	ASSUME(valid_p(in.y, in.m, in.d, in.H, in.M, in.S, in.ms));
	const echs_instant_t x = mk(in.y, in.m, in.d, in.H, in.M, in.S, in.ms, in.kind);
# if defined DT_ISO
	const size_t n = dt_strf(buf, sizeof(buf), x);
# else
	const size_t n = dt_strf_ical(buf, sizeof(buf), x);
# endif
	CHECK(n > 0U && n < 32U && buf[n] == '\0', "print stays inside the buffer and is terminated");
	/* len = 0 (NUL-terminated) and the exact length are both accepted by callers */
	ASSUME(in.uselen == 0 || in.uselen == 1);
	const echs_instant_t r = dt_strp(buf, &on, in.uselen ? n : 0U);
	CHECK(r.u == x.u, "printed instant parses back to the same instant");
	CHECK(on == buf + n, "parser consumes exactly the printed text");
	WITNESS_POINT();
#elif defined IDIFF
	/* whole seconds, up to DMAX days */
# if !defined DMAX
#  define DMAX 4000
# endif
# if defined DAYSONLY
	/* whole days, built from a symbolic day count */
	ASSUME(in.dd >= 0 && in.dd <= DMAX && in.dur == in.dd * 86400000LL);
# elif defined SUBDAY
	/* hours, minutes, seconds below one day, built from symbolic components */
	ASSUME(in.hh >= 0 && in.hh < 24 && in.mm >= 0 && in.mm < 60 && in.ss >= 0 && in.ss < 60);
	ASSUME(in.dur == ((in.hh * 60 + in.mm) * 60 + in.ss) * 1000LL);
# else
	ASSUME(in.dur >= 0 && in.dur <= (long long)DMAX * 86400000LL && in.dur % 1000 == 0);
# endif
	const size_t n = idiff_strf(buf, sizeof(buf), (echs_idiff_t){in.dur});
	CHECK(n >= 3U && n < 40U && buf[n] == '\0', "print stays inside the buffer and is terminated");
	const echs_idiff_t r = idiff_strp(buf, &on, n);
	CHECK(r.d == in.dur, "printed duration parses back to the same number of milliseconds");
	WITNESS_POINT();
#elif defined SPELL
	/* [+|-]P[nW][nD][T[nH][nM][nS]]: every component is written with 1..3 symbolic
	 * DIGITS (leading zeros allowed by the grammar: 1*DIGIT); shape bits choose which
	 * components are present */
#if defined SHAPE
	/* the layout of the text (which components, how many digits each, the sign character) is a
	 * constant of the obligation, the digits are symbolic: a symbolic layout means symbolic buffer
	 * positions on both the writing and the parsing side, which no back end decided in 600 s */
	in.shape = SHAPE, in.sign = SIGN;
	in.nd[0] = in.nd[1] = in.nd[2] = in.nd[3] = in.nd[4] = NDIG;
#endif
	ASSUME(in.shape >= 1 && in.shape < 32);
	ASSUME(in.sign >= 0 && in.sign <= 2);	/* 0 none, 1 '+', 2 '-' */
	size_t i = 0U;
	long long want = 0;
	if (in.sign == 1) buf[i++] = '+';
	if (in.sign == 2) buf[i++] = '-';
	buf[i++] = 'P';
	/* component k uses digits dg[3k .. 3k+nd[k]) */
#if !defined MAXD
# define MAXD 3
#endif
#define COMP(k, bit, letter, unit) \
	if (in.shape & (bit)) { \
		long long v_ = 0; \
		ASSUME(in.nd[k] >= 1 && in.nd[k] <= MAXD); \
		for (unsigned j_ = 0; j_ < 3U; j_++) { \
			if (j_ < (unsigned)in.nd[k]) { \
				ASSUME(in.dg[3 * (k) + j_] >= 0 && in.dg[3 * (k) + j_] <= 9); \
				buf[i++] = (char)('0' + in.dg[3 * (k) + j_]); \
				v_ = v_ * 10 + in.dg[3 * (k) + j_]; \
			} \
		} \
		buf[i++] = (letter); \
		want += v_ * (unit); \
	}
	COMP(0, 1, 'W', 7 * 86400000LL)
	COMP(1, 2, 'D', 86400000LL)
	if (in.shape & 28) {
		buf[i++] = 'T';
		COMP(2, 4, 'H', 3600000LL)
		COMP(3, 8, 'M', 60000LL)
		COMP(4, 16, 'S', 1000LL)
	}
	buf[i] = '\0';
	if (in.sign == 2) want = -want;
	const echs_idiff_t r = idiff_strp(buf, &on, i);
	CHECK(r.d == want, "every legal spelling reads as the value it denotes");
	CHECK(on >= buf + i, "the whole spelling is consumed (snarf_fld: end pointer at or past the end of the value)");
	WITNESS_POINT();
#elif defined RANGE
	ASSUME(valid_p(in.y, in.m, in.d, in.H, in.M, in.S, 0) && valid_p(in.y2, in.m2, in.d2, in.H2, in.M2, in.S2, 0));
	ASSUME(in.kind == K_ALLDAY || in.kind == K_ALLSEC);
	echs_range_t x = {mk(in.y, in.m, in.d, in.H, in.M, in.S, 0, in.kind), mk(in.y2, in.m2, in.d2, in.H2, in.M2, in.S2, 0, in.kind)};
	const size_t n = range_strf(buf, sizeof(buf), x);
	CHECK(n > 0U && n < 48U && buf[n] == '\0', "print stays inside the buffer and is terminated");
	const echs_range_t r = range_strp(buf, &on, n);
	CHECK(r.beg.u == x.beg.u && r.end.u == x.end.u, "printed range parses back to the same range");
	WITNESS_POINT();
#elif defined DIGITS
	ASSUME(in.dur >= 1 && in.dur <= 4294967295LL);
	const uint32_t v = (uint32_t)in.dur;
	const size_t n = ui32tostr(buf, sizeof(buf), v);
	uint32_t back = 0U;
	CHECK(n >= 1U && n <= 10U, "digit count in range");
	for (unsigned i = 0; i < 10U; i++) {
		if (i < n) {
			CHECK(buf[i] >= '0' && buf[i] <= '9', "only digits printed");
			back = back * 10U + (uint32_t)(buf[i] - '0');
		}
	}
	CHECK(buf[0] != '0', "no leading zero");
	CHECK(back == v, "digits denote the value");
	WITNESS_POINT();
#else
# error pick an obligation
#endif
}
