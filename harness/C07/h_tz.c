/* C07: TZID events occur at the stated local wall-clock time.
 * Real code: src/tzraw.c (included textually): __find_trno, __find_zrng, __offs,
 * zif_utc_time, zif_local_time, zif_find_zrng.  The zone itself is symbolic: NT
 * transitions (strictly increasing int32 seconds), 3 local-time types with
 * symbolic offsets, arbitrary type map.  ORC-tz is a linear scan.
 *  -DOFFS_SEQ   three cached lookups from a fresh zone, each == ORC-tz, and terminate
 *  -DFIND_ZRNG  the uncached lookup zif_find_zrng == ORC-tz incl. its [prev,next) range
 *  -DROUNDTRIP  utc(local(U)) == U; local(utc(L)) == L for unambiguous L */
#include "tzraw.c"

#if !defined NT
# define NT 4
#endif
#define NTY 3
#define INPUTS X(ntr) XA(trs, NT) XA(tys, NT) XA(off, NTY) X(t1) X(t2) X(t3)
#include "sym.h"

static struct zih_s Zhdr;
static int32_t Ztrs[NT];
static uint8_t Ztys[NT];
static struct ztrdtl_s Ztda[NTY];
static char Zzn[4];
static struct zif_s Z;

#if !defined OFFGRAN
# define OFFGRAN 900	/* offsets are multiples of 15 minutes (1 with -DOFFGRAN=1) */
#endif

static void mkzone(void)
{
	ASSUME(in.ntr >= 0 && in.ntr <= NT);
	for (unsigned k = 0; k < NT; k++) {
		ASSUME(in.trs[k] > -2147483647LL && in.trs[k] < 2147483646LL);
		if (k > 0) ASSUME(in.trs[k] > in.trs[k - 1]);
#if defined MINGAP
		/* real zones: consecutive transitions are days apart (setup checks the
		 * installed zoneinfo tree for this) */
		if (k > 0) ASSUME(in.trs[k] - in.trs[k - 1] >= MINGAP);
#endif
		ASSUME(in.tys[k] >= 0 && in.tys[k] < NTY);
		Ztrs[k] = (int32_t)in.trs[k];
		Ztys[k] = (uint8_t)in.tys[k];
	}
	for (unsigned k = 0; k < NTY; k++) {
		ASSUME(in.off[k] >= -18 * 3600 && in.off[k] <= 18 * 3600 && in.off[k] % OFFGRAN == 0);
		Ztda[k].offs = (int32_t)in.off[k];
		Ztda[k].dstp = 0, Ztda[k].abbr = 0;
	}
	Zhdr.tzh_timecnt = (uint32_t)in.ntr;
	Zhdr.tzh_typecnt = NTY;
	Zhdr.tzh_charcnt = 1U;
	Z.mpsz = 0U, Z.hdr = &Zhdr, Z.trs = Ztrs, Z.tys = Ztys, Z.tda = Ztda, Z.zn = Zzn;
	Z.fd = -1, Z.cz = TZCZ_UNK;
	/* zif_open() hands out zeroed (mmap'ed) storage, i.e. this cache */
	Z.cache.prev = 0, Z.cache.next = 0, Z.cache.offs = 0, Z.cache.trno = 0;
}

/* ORC-tz: index of the last transition at or before T, -1 if none */
static int orc_trno(long long t)
{
	int r = -1;
	for (unsigned k = 0; k < NT; k++) {
		if (k < (unsigned)in.ntr && in.trs[k] <= t) r = (int)k;
	}
	return r;
}

static long long orc_off(long long t)
{
	int i = orc_trno(t);
	/* before the first transition echse documents "assume the first offset has
	 * always been there": type of transition 0; without transitions type 0 */
	if (in.ntr == 0) return in.off[0];
	return in.off[in.tys[i < 0 ? 0 : i]];
}

static bool in_range_p(long long t)
{
	/* lookups stay inside the int32 stamps the code is written for, with head
	 * room for one offset on either side */
	return t > -2147483647LL + 20 * 3600 && t < 2147483646LL - 20 * 3600;
}

void harness(void)
{
	sym_load();
	mkzone();
	ASSUME(in_range_p(in.t1) && in_range_p(in.t2) && in_range_p(in.t3));
#if defined OFFS_SEQ
	CHECK(__offs(&Z, (int32_t)in.t1) == orc_off(in.t1), "first cached lookup returns the zone's offset");
	CHECK(__offs(&Z, (int32_t)in.t2) == orc_off(in.t2), "second cached lookup returns the zone's offset");
	CHECK(__offs(&Z, (int32_t)in.t3) == orc_off(in.t3), "third cached lookup returns the zone's offset");
	WITNESS_POINT();
#elif defined FIND_ZRNG
	const struct zrng_s r = zif_find_zrng(&Z, (time_t)in.t1);
	CHECK(r.offs == orc_off(in.t1), "uncached lookup returns the zone's offset");
	CHECK(r.prev <= in.t1 && in.t1 < r.next, "reported validity range contains the instant");
	/* the whole reported range has that offset */
	ASSUME(in.t2 >= r.prev && in.t2 < r.next);
	CHECK(orc_off(in.t2) == r.offs, "offset is constant over the reported validity range");
	WITNESS_POINT();
#elif defined ROUNDTRIP
	/* prime the cache with an arbitrary earlier lookup */
	(void)__offs(&Z, (int32_t)in.t3);
	const time_t loc = zif_local_time(&Z, (time_t)in.t1);
	CHECK(loc == in.t1 + orc_off(in.t1), "UTC -> local adds the offset in force");
	/* L = in.t2 is a local time; it is unambiguous iff exactly one UTC instant maps to it */
	unsigned int n = 0U;
	long long u = 0;
	for (unsigned k = 0; k < NTY; k++) {
		const long long c = in.t2 - in.off[k];
		bool dupe = false;
		for (unsigned j = 0; j < k; j++) dupe |= in.off[j] == in.off[k];
		if (!dupe && c + orc_off(c) == in.t2) {
			n++, u = c;
		}
	}
	const time_t utc = zif_utc_time(&Z, (time_t)in.t2);
	if (n == 1U) {
		CHECK(utc == u, "local -> UTC finds the instant whose local time is the stated wall-clock time");
		CHECK(zif_local_time(&Z, utc) == in.t2, "local -> UTC -> local is the identity for unambiguous local times");
	}
	CHECK(zif_utc_time(&Z, loc) == in.t1 || ({ unsigned m = 0; for (unsigned k = 0; k < NTY; k++) { long long c = loc - in.off[k]; bool dupe = false; for (unsigned j = 0; j < k; j++) dupe |= in.off[j] == in.off[k]; m += !dupe && c + orc_off(c) == loc; } m != 1U; }), "UTC -> local -> UTC is the identity unless the local time is ambiguous");
	WITNESS_POINT();
#else
# error pick an obligation
#endif
}
