"""C07 -- TZID events occur at the stated local wall-clock time."""
NOTE = ("tzraw.c's transition search, cached offset lookup and local<->UTC fixed point executed symbolically over a SYMBOLIC "
        "ZONE: up to NT strictly increasing int32 transitions, 3 local-time types with symbolic offsets (+-18h), arbitrary "
        "type map, cache as zif_open() leaves it (zeroed) and as earlier lookups leave it. The installed zoneinfo files are "
        "data; every zone's local shape around any instant (its neighbouring transitions) is inside this family up to NT.")
ASSUMPTIONS = ["before the zone's first recorded transition the offset is that of the first transition's type (echse documents 'assume the first offset has always been there')",
               "offsets multiples of 15 min within +-18 h (arbitrary seconds in the thorough tier)",
               "stamps inside the int32 range the code is written for",
               "local<->UTC round trip: consecutive transitions of a zone are at least 48 h apart (true of every installed zone; checked natively by setup)"]
def ob(name, defs, **kw):
    o = dict(name=name, src='h_tz.c', defs=defs, units=[], incl=['src/tzraw.c'], replay_units='all', unwind=6,
             unwindset={'__find_trno.*': 5, 'zif_utc_time.*': 5}, solver='minisat', slice_formula=True, timeout=600, mem_gb=8,
             checks=['--bounds-check', '--pointer-check', '--signed-overflow-check'], termination=True, hang_s=10,
             sym='the zone (transitions, type map, offsets) and the looked-up instants')
    o.update(kw)
    return o
OBLIGATIONS = [
    ob('offs_seq_nt3', ['OFFS_SEQ', 'NT=3'], enc=['__offs', '__find_zrng', '__find_trno', 'zif_trans', 'zif_troffs'], bounds='<= 3 transitions, 3 consecutive lookups'),
    ob('find_zrng_nt4', ['FIND_ZRNG', 'NT=4'], enc=['zif_find_zrng', '__find_zrng', '__find_trno'], bounds='<= 4 transitions'),
    ob('roundtrip_nt2', ['ROUNDTRIP', 'NT=2', 'MINGAP=172800'], solver='cadical', slice_formula=False, timeout=800, enc=['zif_utc_time', 'zif_local_time', '__offs'], bounds='<= 2 transitions, cache primed by one arbitrary lookup'),
    ob('roundtrip_nt3', ['ROUNDTRIP', 'NT=3', 'MINGAP=172800'], solver='cadical', slice_formula=False, enc=['zif_utc_time', 'zif_local_time', '__offs'], bounds='<= 3 transitions, cache primed by one arbitrary lookup', tiers=('thorough',), timeout=3000),
    ob('offs_seq_nt5_anyoff', ['OFFS_SEQ', 'NT=5', 'OFFGRAN=1'], enc=['__offs'], bounds='<= 5 transitions, offsets at 1 s granularity', tiers=('thorough',), timeout=2400, unwindset={'__find_trno.*': 6}),
    ob('roundtrip_nt4_anyoff', ['ROUNDTRIP', 'NT=4', 'OFFGRAN=1', 'MINGAP=172800'], enc=['zif_utc_time', 'zif_local_time'], bounds='<= 4 transitions, offsets at 1 s granularity', tiers=('thorough',), timeout=2400),
]
