"""C10 -- iCalendar parsing is independent of how the bytes arrive (src/evical.c push parser)."""
NOTE = ("_ical_push/_ical_pull/esccpy executed symbolically on N fully symbolic input bytes (all 256 values), once as a "
        "single chunk and once split at a fixed position, with the callers' pull-until-need-more-data loop and the final "
        "last pull; every completed line handed to the component state machine is recorded and the two recordings, the "
        "held-back partial line and all array accesses are compared / checked. One query per split position.")
ASSUMPTIONS = ["_ical_proc depends only on (parser state, completed line): it is replaced by an injective line recorder at its call sites",
               "inputs of N bytes, two chunks; longer inputs and three or more chunks are outside the claim"]
def ob(n, split, **kw):
    kw.setdefault('mem_gb', 4)
    o = dict(name='n%d_split%d' % (n, split), src='h_pull.c', defs=['N=%d' % n, 'SPLIT=%d' % split, 'ECHSE_VERIF_STASH=16U'], units=[],
             incl=['src/evical.c'], replay_units='all', unwind=n + 1, unwindset={'harness.*': 19, 'esccpy_w.*': 19, 'rec_proc.*': 10},
             solver='minisat', slice_formula=True, timeout=800, mem_gb=3, checks=['--bounds-check', '--pointer-check'], extra=['--max-field-sensitivity-array-size', '8'],
             replace_calls={'esccpy': 'esccpy_w'}, replace_calls2={'esccpy_real': 'esccpy'}, excludes=['C10-1', 'C10-2', 'C10-3', 'C10-4'],
             enc=['_ical_push', '_ical_pull', 'esccpy'], sym='all %d input bytes' % n, bounds='%d bytes, split after byte %d vs one chunk' % (n, split),
             outside='inputs longer than %d bytes; more than two chunks; the component state machine itself' % n,
             stubs=['_ical_proc hands the line to the recorder rec_proc (hook ECHSE_VERIF_PROC)', 'reference memchr (CBMC has no model)', 'esccpy run on a window copy of its target with canary (esccpy_w)', 'hook ECHSE_VERIF_STASH=16 (line stash of 16 instead of 1024 bytes)'])
    o.update(kw)
    return o
OBLIGATIONS = [ob(2, 1), ob(3, 1), ob(3, 2),
               ob(3, 1, name='kf_escape_split', expect='kf', kf='C10-1', witness=False), ob(3, 1, name='kf_fold_split', expect='kf', kf='C10-2', witness=False)] + \
    [ob(4, k, timeout=800, mem_gb=3) for k in (1, 2, 3)] + \
    [ob(4, 2, defs=['N=4', 'SPLIT=2', 'ECHSE_VERIF_STASH=3U', 'SAFETY_ONLY'], name='overlong_n4_split2_stash3', timeout=800, mem_gb=3, excludes=[],
        bounds='4 bytes against a line stash of 3: the over-long-line paths; memory safety and termination only')] + \
    [ob(5, 2, defs=['N=5', 'SPLIT=2', 'ECHSE_VERIF_STASH=3U', 'SAFETY_ONLY'], name='overlong_n5_split2_stash3', tiers=('thorough',), timeout=3000, mem_gb=16, excludes=[],
        bounds='5 bytes against a line stash of 3; memory safety and termination only')] + \
    [ob(4, a, name='n4_split%d_%d' % (a, b), defs=['N=4', 'SPLIT=%d' % a, 'SPLIT2=%d' % b, 'ECHSE_VERIF_STASH=16U'], timeout=800, mem_gb=3, bounds='4 bytes in three chunks cut after bytes %d and %d vs one chunk' % (a, b)) for a, b in ((1, 2), (1, 3), (2, 3))] + \
    [ob(5, a, name='n5_split%d_%d' % (a, b), defs=['N=5', 'SPLIT=%d' % a, 'SPLIT2=%d' % b, 'ECHSE_VERIF_STASH=16U'], timeout=800, mem_gb=4, bounds='5 bytes in three chunks cut after bytes %d and %d vs one chunk' % (a, b)) for a, b in ((1, 3), (2, 3), (2, 4), (1, 2), (3, 4), (1, 4))] + \
    [ob(5, k, timeout=800, mem_gb=4) for k in (1, 2, 3, 4)] + \
    [ob(6, 3, tiers=('thorough',), timeout=3400, mem_gb=24)] + \
    [ob(3, k, defs=['N=3', 'SPLIT=%d' % k, 'ECHSE_VERIF_STASH=16U', 'EMIT'], name='n3_split%d_emit' % k, tiers=('thorough',), timeout=3000, mem_gb=30) for k in (1, 2)] + \
    [ob(4, 2, defs=['N=4', 'SPLIT=2', 'ECHSE_VERIF_STASH=16U', 'EMIT'], name='n4_split2_emit', tiers=('thorough',), timeout=3000, mem_gb=30)]
