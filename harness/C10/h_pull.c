/* C10: iCalendar parsing is independent of how the bytes arrive.
 * Real code: src/evical.c (included textually): _ical_push, _ical_pull, esccpy --
 * the line chopping / unfolding / unescaping / stash layer, which is where
 * chunk dependence can live.  _ical_proc (the component state machine, a function
 * of (state, completed line) only) is replaced at every call site by the
 * recorder rec_proc (goto-instrument --replace-calls; natively by a macro), which
 * logs each completed line it is handed and consumes it the way _ical_proc does.
 *
 *  -DSPLIT2=<l>  (optional) three chunks: [0,k) [k,l) [l,N)
 *  -DN=<bytes>  -DSPLIT=<k>   bytes [0,k) arrive first, [k,N) second; compared
 *                            with all N bytes in one chunk.  Every byte symbolic. */
#include "libc_models.h"
/* the hook ECHSE_VERIF_PROC (src/evical.c, guard ECHSE_VERIF) makes _ical_proc hand the line to rec_proc */
struct ical_parser_s;
struct ical_vevent_s;
static struct ical_vevent_s *rec_proc(struct ical_parser_s *p);
#define ECHSE_VERIF_PROC(p)	rec_proc(p)
#include "evical.c"

#if !defined N
# define N 4
#endif
#if !defined SPLIT
# define SPLIT 2
#endif
#define INPUTS XA(b, N)
#include "sym.h"

#define MAXL	(N + 2)
struct reclog_s {
	unsigned int n;
	unsigned int len[MAXL];
	unsigned long long pk[MAXL];	/* line bytes packed, 8 bits each (lines are <= N <= 7 bytes) */
	int oob;
};
static struct reclog_s *cur;
static struct ical_vevent_s fake_ve;

static struct ical_vevent_s *rec_proc(struct ical_parser_s *p)
{
	/* same contract as _ical_proc: stash[0..six) is one complete (unfolded, unescaped) line */
	unsigned long long pk = 0ULL;
	const size_t sz = p->six;
	/* the first 8 bytes and the length identify the line (exact for lines of <= 8 bytes, i.e. N <= 4:
	 * the end-of-input pull may re-read the last chunk, so a line can be up to 2N bytes long) */
	if (sz >= sizeof(p->stash)) cur->oob = 1;
	for (unsigned i = 0; i < 8; i++) {
		if (i < sz) pk = (pk << 8) | (unsigned char)p->stash[i];
	}
	if (cur->n < MAXL) {
		cur->len[cur->n] = (unsigned)sz;
		cur->pk[cur->n] = pk;
	}
	cur->n++;
	/* consumed, like the real one */
	p->six = 0U;
#if defined EMIT
	/* lines starting with 'E' complete a component: an instruction is handed up */
	return sz && p->stash[0] == 'E' ? &fake_ve : NULL;
#else
	/* no line completes a component: _ical_pull keeps chopping until it needs more data */
	return NULL;
#endif
}

#if !defined SPLIT2
# define SPLIT2 N
#endif
static char in1[N + 1], in2a[N + 1], in2b[N + 1], in2c[N + 1];
static struct ical_parser_s P1;

#if defined VERIF_CBMC
/* esccpy() writes through a char pointer into the middle of the parser object; CBMC turns
 * each such write (symbolic offset) into an update of all ~340 scalar fields of the object.
 * The real esccpy() is therefore run on a window copy of its target: the window
 * stash[six, six+tz) is copied out, the real function works on the copy -- with array
 * bounds checked and a canary behind the window, so a write outside [0,tz) is still
 * reported -- and the window is copied back by direct member indexing.  Installed with
 * goto-instrument --replace-calls esccpy:esccpy_w; the native replay runs the real call. */
#define STASHZ	sizeof(P1.stash)
/* the one call --replace-calls esccpy:esccpy_w must not redirect: a second goto-instrument
 * run turns this body-less name into the real esccpy (--replace-calls esccpy_real:esccpy) */
size_t esccpy_real(char *restrict, size_t, const char*, size_t);
size_t esccpy_w(char *restrict tgt, size_t tz, const char *src, size_t sz)
{
	char win[STASHZ + 2];
	const size_t off = P1.six;
	CHECK(tgt == P1.stash + off && tz == STASHZ - off && off < STASHZ, "esccpy is handed the free part of the line stash");
	for (unsigned i = 0; i < STASHZ + 2; i++) {
		win[i] = i < tz ? P1.stash[off + i] : (char)0x5a;
	}
	const size_t n = esccpy_real(win, tz, src, sz);
	CHECK(win[tz] == (char)0x5a && win[tz + 1 < STASHZ + 2 ? tz + 1 : tz] == (char)0x5a, "esccpy stays inside the space it was given");
	for (unsigned i = 0; i < STASHZ; i++) {
		if (i < tz) P1.stash[off + i] = win[i];
	}
	return n;
}
#endif

/* the callers' loop: pull until "need more data"; a chunk of NB bytes completes at
 * most NB lines, so NB + 1 pulls must suffice */
#if defined EMIT
# define DRAIN(p, nb) \
	do { \
		bool done_ = false; \
		for (unsigned k_ = 0; k_ < (nb) + 1U; k_++) { \
			if (!done_ && _ical_pull(p) == NULL) done_ = true; \
		} \
		CHECK(done_, "pulling terminates within one instruction per input byte"); \
	} while (0)
#else
# define DRAIN(p, nb)	CHECK(_ical_pull(p) == NULL, "without completed components a pull consumes the whole chunk")
#endif

void harness(void)
{
	static struct reclog_s L1, L2;
	/* the parser objects as _ical_init_push/calloc hands them out: all zero where
	 * the encoded functions look (state, stash index, stash content) */
	sym_load();
	for (unsigned i = 0; i < N; i++) {
		ASSUME(in.b[i] >= 0 && in.b[i] <= 255);
#if defined NOBYTE0
		ASSUME(in.b[i] != 0);
#endif
		in1[i] = (char)in.b[i];
		if (i < SPLIT) in2a[i] = (char)in.b[i];
		else if (i < SPLIT2) in2b[i - SPLIT] = (char)in.b[i];
		else in2c[i - SPLIT2] = (char)in.b[i];
	}
#if defined KFONLY_C10_1
	ASSUME(in.b[SPLIT - 1] == '\\');
#endif
#if defined KFONLY_C10_2
	ASSUME(in.b[SPLIT - 1] == '\n' && (in.b[SPLIT] == ' ' || in.b[SPLIT] == '\t'));
#endif
#if defined KF_C10_1
	/* known finding C10-1: a chunk ending in a backslash (the escaped byte arrives later) */
	ASSUME(in.b[SPLIT - 1] != '\\');
# if SPLIT >= 2
	/* ... or in backslash-newline: esccpy() lets the backslash swallow the newline, the line chopper
	 * has counted it as the newline of a fold */
	ASSUME(!(in.b[SPLIT - 2] == '\\' && in.b[SPLIT - 1] == '\n'));
# endif
#endif
#if defined KF_C10_1 && SPLIT2 < N
	/* ... the same at the second chunk boundary */
	ASSUME(in.b[SPLIT2 - 1] != '\\');
	ASSUME(!(in.b[SPLIT2 - 2] == '\\' && in.b[SPLIT2 - 1] == '\n'));
#endif
#if defined KF_C10_2
	/* known finding C10-2: a folded line split between the newline and its space/tab */
	ASSUME(!(in.b[SPLIT - 1] == '\n' && (in.b[SPLIT] == ' ' || in.b[SPLIT] == '\t')));
#endif
	/* one chunk, then -- in the same parser object, reset to its initial state -- two chunks;
	 * one object keeps every `p->' access of the real code resolved to a single target */
	cur = &L1;
	_ical_push(&P1, in1, N);
	DRAIN(&P1, N);
	/* end of input as every caller handles read() == 0: the pull loop once more on the
	 * old buffer, then the last pull (echs_evical_last_pull) */
	DRAIN(&P1, N);
	(void)_ical_pull(&P1);
	/* reset */
	P1.st = ST_UNK, P1.six = 0U, P1.nlp = 0U, P1.buf = NULL, P1.bsz = 0U, P1.bix = 0U;
	for (unsigned k = 0; k < sizeof(P1.stash); k++) P1.stash[k] = '\0';
	cur = &L2;
	_ical_push(&P1, in2a, SPLIT);
	DRAIN(&P1, SPLIT);
	_ical_push(&P1, in2b, SPLIT2 - SPLIT);
	DRAIN(&P1, SPLIT2 - SPLIT);
#if SPLIT2 < N
	_ical_push(&P1, in2c, N - SPLIT2);
	DRAIN(&P1, N - SPLIT2);
	DRAIN(&P1, N - SPLIT2);
#else
	DRAIN(&P1, N - SPLIT);
#endif
	(void)_ical_pull(&P1);

	CHECK(!L1.oob && !L2.oob, "a completed line fits the line stash");
#if !defined SAFETY_ONLY
	/* (lines longer than the stash are dropped on purpose, differently per chunking: the
	 * over-long obligations check memory safety and termination only) */
	CHECK(L1.n == L2.n, "the same number of lines is delivered however the bytes arrive");
	for (unsigned k = 0; k < MAXL; k++) {
		if (k < L1.n && k < L2.n) {
			CHECK(L1.len[k] == L2.len[k] && L1.pk[k] == L2.pk[k], "the same lines are delivered however the bytes arrive");
		}
	}
#endif
	WITNESS_POINT();
}
