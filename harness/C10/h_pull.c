/* C10: iCalendar parsing is independent of how the bytes arrive.
 * Real code: src/evical.c (included textually): _ical_push, _ical_pull, esccpy --
 * the line chopping / unfolding / unescaping / stash layer, which is where
 * chunk dependence can live.  _ical_proc (the component state machine, a function
 * of (state, completed line) only) is replaced at every call site by the
 * recorder rec_proc (goto-instrument --replace-calls; natively by a macro), which
 * logs each completed line it is handed and consumes it the way _ical_proc does.
 *
 *  -DN=<bytes>  -DSPLIT=<k>   bytes [0,k) arrive first, [k,N) second; compared
 *                            with all N bytes in one chunk.  Every byte symbolic. */
#include "libc_models.h"
#if !defined VERIF_CBMC
/* native replay: same redirection by the preprocessor */
struct ical_parser_s;
struct ical_vevent_s;
static struct ical_vevent_s *rec_proc(struct ical_parser_s *p);
# define _ical_proc(p)	rec_proc(p)
# define REC_NATIVE
#endif
#include "evical.c"
#if defined REC_NATIVE
# undef _ical_proc
#endif

#if !defined N
# define N 4
#endif
#if !defined SPLIT
# define SPLIT 2
#endif
#define INPUTS XA(b, N)
#include "sym.h"

#define MAXL	(N + 2)
struct reclog_s {
	unsigned int n;
	unsigned int len[MAXL];
	unsigned long long pk[MAXL];	/* line bytes packed, 8 bits each (lines are <= N <= 7 bytes) */
	int oob;
};
static struct reclog_s *cur;
static struct ical_vevent_s fake_ve;

struct ical_vevent_s *rec_proc(struct ical_parser_s *p)
{
	/* same contract as _ical_proc: stash[0..six) is one complete (unfolded, unescaped) line */
	unsigned long long pk = 0ULL;
	const size_t sz = p->six;
	if (sz > N) cur->oob = 1;
	for (unsigned i = 0; i < N; i++) {
		if (i < sz) pk = (pk << 8) | (unsigned char)p->stash[i];
	}
	if (cur->n < MAXL) {
		cur->len[cur->n] = (unsigned)sz;
		cur->pk[cur->n] = pk;
	}
	cur->n++;
	/* consumed, like the real one */
	p->six = 0U;
	/* lines starting with 'E' complete a component: an instruction is handed up */
	return sz && p->stash[0] == 'E' ? &fake_ve : NULL;
}

static char in1[N + 1], in2a[N + 1], in2b[N + 1];

/* the callers' loop: pull until "need more data"; a chunk of NB bytes completes at
 * most NB lines, so NB + 1 pulls must suffice */
#define DRAIN(p, nb) \
	do { \
		bool done_ = false; \
		for (unsigned k_ = 0; k_ < (nb) + 1U; k_++) { \
			if (!done_ && _ical_pull(p) == NULL) done_ = true; \
		} \
		CHECK(done_, "pulling terminates within one instruction per input byte"); \
	} while (0)

void harness(void)
{
	static struct reclog_s L1, L2;
	/* the parser objects as _ical_init_push/calloc hands them out: all zero where
	 * the encoded functions look (state, stash index, stash content) */
	static struct ical_parser_s P1, P2;
	sym_load();
	for (unsigned i = 0; i < N; i++) {
		ASSUME(in.b[i] >= 0 && in.b[i] <= 255);
#if defined NOBYTE0
		ASSUME(in.b[i] != 0);
#endif
#if defined EXCL
		EXCL;
#endif
		in1[i] = (char)in.b[i];
		if (i < SPLIT) in2a[i] = (char)in.b[i];
		else in2b[i - SPLIT] = (char)in.b[i];
	}
	/* one chunk */
	cur = &L1;
	_ical_push(&P1, in1, N);
	DRAIN(&P1, N);
	/* two chunks */
	cur = &L2;
	_ical_push(&P2, in2a, SPLIT);
	DRAIN(&P2, SPLIT);
	_ical_push(&P2, in2b, N - SPLIT);
	DRAIN(&P2, N - SPLIT);
	/* end of input: the last pull, as echs_evical_last_pull does */
	cur = &L1;
	(void)_ical_pull(&P1);
	cur = &L2;
	(void)_ical_pull(&P2);

	CHECK(!L1.oob && !L2.oob, "no completed line is longer than the input");
	CHECK(L1.n == L2.n, "the same number of lines is delivered however the bytes arrive");
	for (unsigned k = 0; k < MAXL; k++) {
		if (k < L1.n && k < L2.n) {
			CHECK(L1.len[k] == L2.len[k] && L1.pk[k] == L2.pk[k], "the same lines are delivered however the bytes arrive");
		}
	}
	CHECK(P1.six == P2.six, "the same partial line is held back however the bytes arrive");
	for (unsigned k = 0; k < N; k++) {
		if (k < P1.six && k < P2.six) {
			CHECK(P1.stash[k] == P2.stash[k], "the held-back partial line has the same content");
		}
	}
	WITNESS_POINT();
}
