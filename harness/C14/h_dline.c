/* C14: a job outliving its DTEND/DURATION/DUE limit is killed by the deadline --
 * the unit-conversion chain user file -> echsd -> echsx, without processes.
 *  -DSIDE_D  echsd: vtodoify() (src/echsd.c) writes the limit of the occurrence
 *            about to run into the execution request: captured DURATION line
 *  -DSIDE_T  the text form echsd writes, "PT<n>S", read by idiff_strp (src/dt-strpf.c)
 *  -DSIDE_M  make_task() (src/evical.c) classifies a request with a DURATION as a
 *            timeout and keeps the value
 *  -DSIDE_E  make_task() turns DTSTART..DTEND given in a time zone into the duration: the
 *            real elapsed (UTC) time, also across a DST switch (zone stand-in: Europe/Berlin
 *            around 2015-03-29; the native replay uses the real zoneinfo file)
 *  -DSIDE_X  echsx() (src/echsx.c) up to set_timeout(): argument handed to alarm()
 *            for a TIMEOUT request and for a DUE request
 * The limit L is symbolic (1 s .. 30 days, ms resolution where the type has it). */
#if defined SIDE_D
# define ECHS_TASK_POOL_INIZ	(2U)
# define ECHS_CHLD_POOL_INIZ	(2U)
# include "echsd_env.h"
#elif defined SIDE_T
# include "dt-strpf.c"
#elif defined SIDE_M || defined SIDE_E
# include "evical.c"
#elif defined SIDE_X
# include <signal.h>
# include <unistd.h>
static unsigned int cap_alarm;
static int cap_alarm_calls;
static long long cap_now;
/* stand-ins, defined before echsx.c so that its calls bind to them */
# define main echsx_main
# include "echsx.c"
# undef main
#else
# error pick a side
#endif

#define INPUTS X(ms) XA(dg, 7) X(nd) X(due_sod) X(now) X(fd) X(fH) X(fM) X(fS) X(td) X(tH) X(tM) X(tS)
#include "sym.h"

#define LMAX	(30LL * 86400000LL)
#if !defined ND
# define ND 7
#endif

#if defined SIDE_X
unsigned int alarm(unsigned int s) { cap_alarm = s; cap_alarm_calls++; return 0; }
time_t time(time_t *t) { if (t) *t = (time_t)cap_now; return (time_t)cap_now; }
int setgid(gid_t g) { (void)g; return 0; }
int setuid(uid_t u) { (void)u; return 0; }
mode_t umask(mode_t m) { (void)m; return 022; }
int sigaction(int s, const struct sigaction *a, struct sigaction *o) { (void)s; (void)a; (void)o; return 0; }
int sigprocmask(int h, const sigset_t *s, sigset_t *o) { (void)h; (void)s; (void)o; return 0; }
/* stop right after the deadline is armed: prep_task()'s first open() fails */
int open(const char *fn, int fl, ...) { (void)fn; (void)fl; return -1; }
static struct passwd PW = {.pw_name = "u", .pw_uid = 1000, .pw_gid = 1000, .pw_dir = "/", .pw_shell = "/bin/sh"};
struct passwd *getpwuid(uid_t u) { (void)u; return &PW; }
#endif

#if defined SIDE_E
/* Europe/Berlin around 2015-03-29: wall clock before 02:00 on the 29th is UTC+1, from 03:00 on
 * UTC+2 (02:00..03:00 does not exist).  Offsets in whole hours. */
static int berlin_offh(long long d, long long H) { return d < 29 || (d == 29 && H < 2) ? 1 : 2; }
# if defined VERIF_CBMC
echs_instant_t echs_instant_utc(echs_instant_t i, echs_tzob_t z)
{
	(void)z;
	i = echs_instant_detach_tzob(i);
	const unsigned int o = (unsigned int)berlin_offh(i.d, i.H);
	if (i.H >= o) {
		i.H -= o;
	} else {
		i.H += 24U - o, i.d -= 1U;
	}
	return i;
}
# endif
static echs_instant_t berlin_wall(long long d, long long H, long long M, long long S, echs_tzob_t z)
{
	echs_instant_t i = {.u = 0U};
	i.y = 2015, i.m = 3, i.d = (unsigned)d, i.H = (unsigned)H, i.M = (unsigned)M, i.S = (unsigned)S, i.ms = ECHS_ALL_SEC;
	return echs_instant_attach_tzob(i, z);
}
#endif

void harness(void)
{
	sym_load();
#if defined SIDE_D
	ENV_INIT();
	static struct echs_task_s T;
	static struct _task_s W;
	ASSUME(in.ms >= 1 && in.ms <= LMAX);
	T.oid = 5U, T.owner = nummapstr_bang_num(1000), T.umsk = 0777;
	W.t = &T, W.dur = (echs_idiff_t){in.ms}, W.dflt_cred.u = 1000, W.dflt_cred.wd = "/", W.dflt_cred.sh = "/bin/sh";
	CHECK(vtodoify(7, &W) == 0, "the execution request is written");
	CHECK(env_cap_dur >= 0, "the request carries a DURATION");
	CHECK(env_cap_dur_iso, "the DURATION is written in the ISO 8601 form the executor's parser reads");
	CHECK((long long)env_cap_dur * 1000 >= in.ms && ((long long)env_cap_dur - 1) * 1000 < in.ms, "the limit handed on is the event's span, rounded up to whole seconds");
	WITNESS_POINT();
#elif defined SIDE_T
	/* "PT<digits>S" with 1..7 symbolic digits */
	char buf[16];
	char *on = NULL;
	size_t i = 0U;
	long long n = 0;
	/* ND digits (one obligation per length: the text echsd writes has no padding) */
	buf[i++] = 'P', buf[i++] = 'T';
	for (unsigned k = 0; k < ND; k++) {
		ASSUME(in.dg[k] >= (k == 0U) && in.dg[k] <= 9);
		buf[i++] = (char)('0' + in.dg[k]);
		n = n * 10 + in.dg[k];
	}
	buf[i++] = 'S', buf[i] = '\0';
	const echs_idiff_t r = idiff_strp(buf, &on, i);
	CHECK(r.d == n * 1000, "PT<n>S reads as n seconds");
	CHECK(on >= buf + i, "the whole value is consumed (snarf_fld keeps the duration only if the end pointer reached the end of the value)");
	WITNESS_POINT();
#elif defined SIDE_M
	static struct ical_vevent_s ve;
	ASSUME(in.ms >= 1 && in.ms <= LMAX);
	ve.t.oid = 9U;
	ve.dur = (echs_idiff_t){in.ms};
	ve.t.umsk = 1U, ve.t.max_simul = 0U;
	struct echs_task_s *t = make_task(&ve);
	CHECK(t != NULL, "request accepted");
	if (t != NULL) {
		CHECK(t->strm == NULL && t->vtod_typ == VTOD_TYP_TIMEOUT, "a request with a DURATION and no DTSTART is a timeout request");
		CHECK(t->timeout.d == in.ms, "the timeout keeps the value of the DURATION");
	}
	WITNESS_POINT();
#elif defined SIDE_E
	static struct ical_vevent_s ve;
	/* wall-clock DTSTART and DTEND, both TZID=Europe/Berlin, anywhere in 2015-03-28..30, not inside the gap */
	ASSUME(in.fd >= 28 && in.fd <= 30 && in.fH >= 0 && in.fH < 24 && in.fM >= 0 && in.fM < 60 && in.fS >= 0 && in.fS < 60);
	ASSUME(in.td >= 28 && in.td <= 30 && in.tH >= 0 && in.tH < 24 && in.tM >= 0 && in.tM < 60 && in.tS >= 0 && in.tS < 60);
	ASSUME(!(in.fd == 29 && in.fH == 2) && !(in.td == 29 && in.tH == 2));
# if defined WHOLEHOURS
	ASSUME(in.tM == in.fM && in.tS == in.fS);
# endif
	const long long want = ((in.td - in.fd) * 24 + (in.tH - berlin_offh(in.td, in.tH)) - (in.fH - berlin_offh(in.fd, in.fH))) * 3600 + (in.tM - in.fM) * 60 + (in.tS - in.fS);
	ASSUME(want > 0);
# if defined VERIF_CBMC
	const echs_tzob_t Z = 0x40U;	/* any value inside ECHS_DMASK */
# else
	const echs_tzob_t Z = echs_tzob("Europe/Berlin", 13U);
# endif
	ve.from = berlin_wall(in.fd, in.fH, in.fM, in.fS, Z), ve.till = berlin_wall(in.td, in.tH, in.tM, in.tS, Z);
	ve.t.oid = 9U, ve.t.umsk = 1U, ve.t.max_simul = 0U;
	struct echs_task_s *t = make_task(&ve);
	CHECK(t != NULL, "event accepted");
	CHECK(ve.dur.d == want * 1000, "the limit of a DTSTART..DTEND event is the real elapsed time between the two, DST switch included");
	WITNESS_POINT();
#elif defined SIDE_X
	static struct echs_task_s T;
	T.oid = 9U, T.cmd = "true", T.run_as.u = nummapstr_bang_num(1000), T.run_as.g = NUMMAPSTR_NAN, T.umsk = 022;
# if defined DUE
	/* DUE on 2030-06-15 at second-of-day due_sod; now a symbolic epoch second that day */
	ASSUME(in.due_sod >= 0 && in.due_sod < 86400 && in.now >= 1907712000LL - 86400 && in.now < 1907712000LL + 2 * 86400);
	T.vtod_typ = VTOD_TYP_DUE;
	T.due = (echs_instant_t){.u = 0U};
	T.due.y = 2030, T.due.m = 6, T.due.d = 15;
	T.due.H = (unsigned)(in.due_sod / 3600), T.due.M = (unsigned)(in.due_sod / 60 % 60), T.due.S = (unsigned)(in.due_sod % 60), T.due.ms = ECHS_ALL_SEC;
	cap_now = in.now;
	const long long due = 1907712000LL + in.due_sod;	/* 2030-06-15T00:00:00Z */
	(void)echsx(&T);
	if (in.now >= due) {
		CHECK(cap_alarm_calls == 0, "an overdue request is refused, no deadline is armed");
	} else {
		CHECK(cap_alarm_calls == 1 && (long long)cap_alarm == due - in.now, "the job is killed at its DUE time");
	}
# else
	ASSUME(in.ms >= 1 && in.ms <= LMAX);
	T.vtod_typ = VTOD_TYP_TIMEOUT;
	T.timeout = (echs_idiff_t){in.ms};
	(void)echsx(&T);
	CHECK(cap_alarm_calls == 1, "a deadline is armed for a timeout request");
	CHECK((long long)cap_alarm * 1000 >= in.ms && ((long long)cap_alarm - 1) * 1000 < in.ms, "the deadline is the requested span in seconds");
# endif
	WITNESS_POINT();
#endif
}
