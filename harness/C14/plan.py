"""C14 -- a job outliving its DTEND/DURATION/DUE limit is killed by the deadline: the conversion chain."""
NOTE = ("The limit travels user file -> (make_task: DTEND-DTSTART or DURATION -> event duration, C08/C18) -> echsd "
        "vtodoify(): DURATION line of the execution request -> echsx parser idiff_strp -> make_task(): timeout request -> "
        "echsx(): alarm(). Each hop is executed symbolically with the limit L as a solver variable (1 s .. 30 days) and must "
        "hand on L (rounded up to whole seconds); DUE requests arm due-now or are refused when overdue.")
ASSUMPTIONS = ["kernel delivers SIGALRM after the seconds given to alarm(); SIGXCPU kills the job (outside)",
               "echsd side: stand-ins of harness/common/echsd_env.h with the output captured, not formatted",
               "echsx side: setuid/setgid/umask/sigaction/time/alarm stand-ins; open() fails, ending the request in prep_task (the run itself is C13's subject)"]
def ob(name, defs, **kw):
    o = dict(name=name, src='h_dline.c', defs=defs, units=[], replay_units='all', unwind=9, solver='cadical', timeout=900, mem_gb=12,
             checks=['--bounds-check'], sym='the limit in ms (text digits / DUE second and clock for the respective hop)', bounds='1 s .. 30 days',
             outside='signal delivery timing; the job process')
    o.update(kw)
    return o
OBLIGATIONS = [
    ob('echsd_writes_limit', ['SIDE_D'], incl=['src/echsd.c'], replay_extra_units=['src/logger.c'], object_bits=11, enc=['vtodoify'],
       allow_nobody=['snprintf', 'obint_name', 'echs_log', 'echs_errlog'], stubs=['fdprnt.h pre-empted by capturing writers (harness/common/echsd_env.h)']),
] + [ob('text_PT%ddigitsS_reads_back' % nd, ['SIDE_T', 'ND=%d' % nd], incl=['src/dt-strpf.c'], units=['src/instant.c'], enc=['idiff_strp'], solver='kissat', unwindset={'sym_load.*': 9, 'idiff_strp.0': 2, 'idiff_strp.1': 1, 'idiff_strp.2': 1, 'idiff_strp.3': nd + 2, 'idiff_strp.4': 1, 'idiff_strp.5': 1, 'idiff_strp.6': 3, 'harness.*': 9},
         bounds='every value of exactly %d digits' % nd, tiers=('quick', 'thorough')) for nd in range(1, 8)] + [
    ob('request_is_timeout', ['SIDE_M'], incl=['src/evical.c'], enc=['make_task'], allow_nobody=['echs_toid_gen', 'echs_instant_utc', 'echs_tzob_offs', 'echs_instant_loc'],
       unwindset={'echs_instant_fixup.*': 3}),
    ob('dtend_limit_whole_hours', ['SIDE_E', 'WHOLEHOURS'], incl=['src/evical.c'], units=['src/instant.c', 'src/scale.c'], enc=['make_task', 'echs_instant_diff'], solver='kissat', checks=[],
       allow_nobody=['echs_toid_gen', 'echs_tzob_offs', 'echs_instant_loc', 'echs_log', 'echs_errlog'], unwindset={'echs_instant_fixup.*': 3, 'echs_instant_add.*': 3},
       sym='wall-clock DTSTART (second resolution) and DTEND a whole number of wall-clock hours later, Europe/Berlin 2015-03-28..30', bounds='both ends within the three days around the DST switch',
       stubs=['zone stand-in for Europe/Berlin at that switch (CBMC); the native replay reads the real zoneinfo']),
    ob('dtend_limit_is_elapsed_utc_time', ['SIDE_E'], incl=['src/evical.c'], units=['src/instant.c', 'src/scale.c'], enc=['make_task', 'echs_instant_diff', 'echs_instant_add'], solver='cadical', checks=[], timeout=1200,
       allow_nobody=['echs_toid_gen', 'echs_tzob_offs', 'echs_instant_loc', 'echs_log', 'echs_errlog'], unwindset={'echs_instant_fixup.*': 3, 'echs_instant_add.*': 3},
       sym='wall-clock DTSTART and DTEND (second resolution) in Europe/Berlin over 2015-03-28..30', bounds='both ends within the three days around the DST switch',
       stubs=['zone stand-in for Europe/Berlin at that switch (CBMC); the native replay reads the real zoneinfo']),
    ob('echsx_arms_timeout', ['SIDE_X'], incl=['src/echsx.c'], replay_extra_units=['src/logger.c'], replay_libs=['-lev'], enc=['echsx', 'set_timeout'], object_bits=11,
       allow_nobody=['snprintf', 'echs_log', 'echs_errlog', 'getgrnam', 'getpwnam', 'sigemptyset', 'sigaddset', 'kill'],
       stubs=['alarm/time/setuid/setgid/umask/sigaction stand-ins', 'open() fails so that prep_task() ends the request right after the deadline is armed']),
    ob('echsx_arms_due', ['SIDE_X', 'DUE'], incl=['src/echsx.c'], units=['src/tzob.c', 'src/instant.c'], replay_extra_units=['src/logger.c'], replay_libs=['-lev'], enc=['echsx', 'echs_instant_to_epoch'], object_bits=11, solver='kissat',
       allow_nobody=['snprintf', 'echs_log', 'echs_errlog', 'getgrnam', 'getpwnam', 'sigemptyset', 'sigaddset', 'kill', 'zif_open', 'zif_close', 'zif_find_zrng', 'zif_local_time', 'zif_utc_time', 'hash'],
       bounds='DUE any second of 2030-06-15, clock any second of the three days around it'),
]
